/* Clean-room reference implementation of the ISA-L erasure-code primitives the
 * liberasurecode adapters bind by dlsym, written from ISA-L's public API
 * documentation (erasure_code.h) over a bitwise GF(2^8)/0x11d multiply.
 * Built as libisal.so.2 into the check's build directory.
 *
 * Control knobs (read by the harness through dlsym on its own handle):
 *   refisal_invert_calls        number of gf_invert_matrix calls so far
 *   refisal_fail_invert_at      if > 0, the call with that ordinal reports failure (-1)
 */
#include <string.h>
#include <stdlib.h>

long refisal_invert_calls = 0;
long refisal_fail_invert_at = 0;
long refisal_encode_calls = 0;

static unsigned char mul_slow(unsigned char a, unsigned char b)
{
    unsigned acc = 0, x = a;
    for (int i = 0; i < 8; i++) {
        if (b & (1u << i)) acc ^= x;
        x <<= 1;
        if (x & 0x100u) x ^= 0x11du;
    }
    return (unsigned char)acc;
}
static unsigned char MUL[256][256], INV[256];
static int ready;
static void init(void)
{
    if (ready) return;
    for (int a = 0; a < 256; a++) for (int b = 0; b < 256; b++) MUL[a][b] = mul_slow((unsigned char)a, (unsigned char)b);
    for (int a = 1; a < 256; a++) for (int b = 1; b < 256; b++) if (MUL[a][b] == 1) INV[a] = (unsigned char)b;
    ready = 1;
}
static void __attribute__((constructor)) ctor(void) { init(); }

unsigned char gf_mul(unsigned char a, unsigned char b) { init(); return MUL[a][b]; }
unsigned char gf_inv(unsigned char a) { init(); return INV[a]; }

void gf_gen_rs_matrix(unsigned char *a, int m, int k)
{
    init();
    memset(a, 0, (size_t)k * m);
    for (int i = 0; i < k; i++) a[k * i + i] = 1;
    unsigned char gen = 1;
    for (int i = k; i < m; i++) {
        unsigned char p = 1;
        for (int j = 0; j < k; j++) { a[k * i + j] = p; p = MUL[p][gen]; }
        gen = MUL[gen][2];
    }
}

void gf_gen_cauchy1_matrix(unsigned char *a, int m, int k)
{
    init();
    memset(a, 0, (size_t)k * m);
    for (int i = 0; i < k; i++) a[k * i + i] = 1;
    for (int i = k; i < m; i++)
        for (int j = 0; j < k; j++) a[k * i + j] = INV[i ^ j];
}

int gf_invert_matrix(unsigned char *in, unsigned char *out, const int n)
{
    init();
    long ord = __atomic_add_fetch(&refisal_invert_calls, 1, __ATOMIC_RELAXED);
    if (refisal_fail_invert_at > 0 && ord == refisal_fail_invert_at) return -1;
    memset(out, 0, (size_t)n * n);
    for (int i = 0; i < n; i++) out[i * n + i] = 1;
    for (int i = 0; i < n; i++) {
        if (in[i * n + i] == 0) {
            int j;
            for (j = i + 1; j < n; j++) if (in[j * n + i]) break;
            if (j == n) return -1;
            for (int c = 0; c < n; c++) {
                unsigned char t = in[i * n + c]; in[i * n + c] = in[j * n + c]; in[j * n + c] = t;
                t = out[i * n + c]; out[i * n + c] = out[j * n + c]; out[j * n + c] = t;
            }
        }
        unsigned char iv = INV[in[i * n + i]];
        for (int c = 0; c < n; c++) { in[i * n + c] = MUL[in[i * n + c]][iv]; out[i * n + c] = MUL[out[i * n + c]][iv]; }
        for (int r = 0; r < n; r++) {
            if (r == i) continue;
            unsigned char f = in[r * n + i];
            if (!f) continue;
            for (int c = 0; c < n; c++) { in[r * n + c] ^= MUL[f][in[i * n + c]]; out[r * n + c] ^= MUL[f][out[i * n + c]]; }
        }
    }
    return 0;
}

/* 32-byte expansion per coefficient c: c*{0..15} then c*{0x00,0x10,..,0xf0} */
void ec_init_tables(int k, int rows, unsigned char *a, unsigned char *g_tbls)
{
    init();
    for (int i = 0; i < rows; i++)
        for (int j = 0; j < k; j++) {
            unsigned char c = *a++;
            for (int t = 0; t < 16; t++) { g_tbls[t] = MUL[c][t]; g_tbls[16 + t] = MUL[c][t << 4]; }
            g_tbls += 32;
        }
}

void ec_encode_data(int len, int k, int rows, unsigned char *g_tbls, unsigned char **data, unsigned char **coding)
{
    __atomic_fetch_add(&refisal_encode_calls, 1, __ATOMIC_RELAXED);
    for (int l = 0; l < rows; l++)
        for (int i = 0; i < len; i++) {
            unsigned char s = 0;
            for (int j = 0; j < k; j++) {
                const unsigned char *t = g_tbls + ((size_t)l * k + j) * 32;
                unsigned char v = data[j][i];
                s ^= t[v & 15] ^ t[16 + (v >> 4)];
            }
            coding[l][i] = s;
        }
}
