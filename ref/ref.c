/* Reference models — see ref.h. No code shared with the repository. */
#include "ref.h"
#include "xor_golden.h"
#include <stdio.h>
#include <stdlib.h>
#include <string.h>

/* ================= GF(2^16) ================= */
uint16_t gf16_mul_slow(uint16_t a, uint16_t b)
{
    uint32_t acc = 0, x = a;
    for (int i = 0; i < 16; i++) {
        if (b & (1u << i)) acc ^= x;
        x <<= 1;
        if (x & 0x10000u) x ^= 0x1100bu;
    }
    return (uint16_t)acc;
}
static uint16_t *g16_log, *g16_exp; /* exp has 2*65535 entries */
uint16_t gf16_mul(uint16_t a, uint16_t b)
{
    if (!a || !b) return 0;
    return g16_exp[(uint32_t)g16_log[a] + g16_log[b]];
}
uint16_t gf16_inv(uint16_t a)
{
    if (!a) return 0;
    return g16_exp[65535u - g16_log[a]];
}
void gf16_generator(int k, int m, uint16_t *G)
{
    memset(G, 0, sizeof(uint16_t) * (size_t)(k + m) * k);
    for (int i = 0; i < k; i++) G[i * k + i] = 1;
    for (int j = 0; j < k; j++) {
        uint16_t den = 1;
        for (int i = 0; i < k; i++) if (i != j) den = gf16_mul(den, (uint16_t)(k ^ i));
        uint16_t deninv = gf16_inv(den);
        for (int r = k; r < k + m; r++) {
            uint16_t num = 1;
            for (int i = 0; i < k; i++) if (i != j) num = gf16_mul(num, (uint16_t)(r ^ i));
            G[r * k + j] = gf16_mul(num, deninv);
        }
    }
}

/* ================= GF(2^8) ================= */
uint8_t gf8_mul_slow(uint8_t a, uint8_t b)
{
    uint32_t acc = 0, x = a;
    for (int i = 0; i < 8; i++) {
        if (b & (1u << i)) acc ^= x;
        x <<= 1;
        if (x & 0x100u) x ^= 0x11du;
    }
    return (uint8_t)acc;
}
static uint8_t g8_mul[256][256], g8_inv[256];
uint8_t gf8_mul(uint8_t a, uint8_t b) { return g8_mul[a][b]; }
uint8_t gf8_inv(uint8_t a) { return g8_inv[a]; }
void gf8_gen_rs_matrix(uint8_t *a, int rows, int k)
{
    memset(a, 0, (size_t)rows * k);
    for (int i = 0; i < k; i++) a[k * i + i] = 1;
    uint8_t gen = 1;
    for (int i = k; i < rows; i++) {
        uint8_t p = 1;
        for (int j = 0; j < k; j++) { a[k * i + j] = p; p = gf8_mul(p, gen); }
        gen = gf8_mul(gen, 2);
    }
}
void gf8_gen_cauchy1_matrix(uint8_t *a, int rows, int k)
{
    memset(a, 0, (size_t)rows * k);
    for (int i = 0; i < k; i++) a[k * i + i] = 1;
    for (int i = k; i < rows; i++)
        for (int j = 0; j < k; j++) a[k * i + j] = gf8_inv((uint8_t)(i ^ j));
}
uint16_t gf8_mul16(uint16_t a, uint16_t b) { return gf8_mul((uint8_t)a, (uint8_t)b); }
uint16_t gf8_inv16(uint16_t a) { return gf8_inv((uint8_t)a); }
uint16_t gf2_mul16(uint16_t a, uint16_t b) { return a & b & 1; }
uint16_t gf2_inv16(uint16_t a) { return a & 1; }

/* ================= linear algebra ================= */
int f_rank(uint16_t *M, int rows, int cols, fmul_t mul, finv_t inv)
{
    int rank = 0;
    for (int c = 0; c < cols && rank < rows; c++) {
        int p = -1;
        for (int r = rank; r < rows; r++) if (M[r * cols + c]) { p = r; break; }
        if (p < 0) continue;
        if (p != rank)
            for (int j = 0; j < cols; j++) { uint16_t t = M[p * cols + j]; M[p * cols + j] = M[rank * cols + j]; M[rank * cols + j] = t; }
        uint16_t iv = inv(M[rank * cols + c]);
        for (int j = 0; j < cols; j++) M[rank * cols + j] = mul(M[rank * cols + j], iv);
        for (int r = 0; r < rows; r++) {
            if (r == rank) continue;
            uint16_t f = M[r * cols + c];
            if (!f) continue;
            for (int j = 0; j < cols; j++) M[r * cols + j] ^= mul(f, M[rank * cols + j]);
        }
        rank++;
    }
    return rank;
}
int f_in_span(const uint16_t *M, int rows, int cols, const uint16_t *v, fmul_t mul, finv_t inv)
{
    uint16_t *T = malloc(sizeof(uint16_t) * (size_t)(rows + 1) * cols);
    memcpy(T, M, sizeof(uint16_t) * (size_t)rows * cols);
    int r0 = f_rank(T, rows, cols, mul, inv);
    memcpy(T, M, sizeof(uint16_t) * (size_t)rows * cols);
    memcpy(T + (size_t)rows * cols, v, sizeof(uint16_t) * cols);
    int r1 = f_rank(T, rows + 1, cols, mul, inv);
    free(T);
    return r0 == r1;
}

/* ================= CRC ================= */
static uint32_t crc_step_tab(uint32_t idx)
{
    uint32_t t = idx & 0xff;
    for (int i = 0; i < 8; i++) t = (t & 1) ? (t >> 1) ^ 0xEDB88320u : t >> 1;
    return t;
}
uint32_t crc_std(const void *buf, size_t n)
{
    const uint8_t *p = buf;
    uint32_t crc = 0xffffffffu;
    for (size_t i = 0; i < n; i++) {
        crc ^= p[i];
        for (int b = 0; b < 8; b++) crc = (crc & 1) ? (crc >> 1) ^ 0xEDB88320u : crc >> 1;
    }
    return ~crc;
}
uint32_t crc_legacy(const void *buf, size_t n)
{
    const uint8_t *p = buf;
    uint32_t crc = 0xffffffffu;
    for (size_t i = 0; i < n; i++) {
        uint32_t t = crc_step_tab(crc ^ p[i]);
        /* the historical implementation shifted a signed 32-bit register: arithmetic shift */
        uint32_t sh = crc >> 8;
        if (crc & 0x80000000u) sh |= 0xff000000u;
        crc = t ^ sh;
    }
    return ~crc;
}

/* ================= wire ================= */
static void put_le64(uint8_t *p, uint64_t v) { for (int i = 0; i < 8; i++) p[i] = (uint8_t)(v >> (8 * i)); }
static uint64_t le64(const uint8_t *p) { uint64_t v = 0; for (int i = 7; i >= 0; i--) v = v << 8 | p[i]; return v; }
static uint64_t be64(const uint8_t *p) { uint64_t v = 0; for (int i = 0; i < 8; i++) v = v << 8 | p[i]; return v; }
void wire_put(uint8_t *h, const struct wire_fields *f)
{
    memset(h, 0, WIRE_HDR);
    put_le32(h + 0, f->idx);
    put_le32(h + 4, f->size);
    put_le32(h + 8, f->bmsize);
    put_le64(h + 12, f->orig);
    h[20] = f->ct;
    put_le32(h + 21, f->chksum0);      /* chksum[1..7] stay zero: 25..52 */
    h[53] = f->mismatch;
    h[54] = f->backend_id;
    put_le32(h + 55, f->backend_version);
    put_le32(h + 59, f->magic);
    put_le32(h + 63, f->libec_version);
    put_le32(h + 67, f->meta_crc);
    /* 71..79 zero padding */
}
void wire_get(const uint8_t *h, struct wire_fields *f)
{
    f->idx = le32(h + 0); f->size = le32(h + 4); f->bmsize = le32(h + 8); f->orig = le64(h + 12);
    f->ct = h[20]; f->chksum0 = le32(h + 21); f->mismatch = h[53]; f->backend_id = h[54];
    f->backend_version = le32(h + 55); f->magic = le32(h + 59); f->libec_version = le32(h + 63);
    f->meta_crc = le32(h + 67);
}
void wire_get_swapped(const uint8_t *h, struct wire_fields *f)
{
    f->idx = be32(h + 0); f->size = be32(h + 4); f->bmsize = be32(h + 8); f->orig = be64(h + 12);
    f->ct = h[20]; f->chksum0 = be32(h + 21); f->mismatch = h[53]; f->backend_id = h[54];
    f->backend_version = be32(h + 55); f->magic = be32(h + 59); f->libec_version = be32(h + 63);
    f->meta_crc = be32(h + 67);
}
void wire_seal(uint8_t *h, int legacy)
{
    put_le32(h + 67, legacy ? crc_legacy(h, 59) : crc_std(h, 59));
}
static void rev(uint8_t *p, int n) { for (int i = 0; i < n / 2; i++) { uint8_t t = p[i]; p[i] = p[n - 1 - i]; p[n - 1 - i] = t; } }
void wire_byteswap_twin(uint8_t *h)
{
    /* what a writer of the other endianness would have stored for the same logical values:
     * every multi-byte field reversed; the metadata CRC is computed by that writer over *its* bytes 0..58 */
    rev(h + 0, 4); rev(h + 4, 4); rev(h + 8, 4); rev(h + 12, 8);
    for (int i = 0; i < 8; i++) rev(h + 21 + 4 * i, 4);
    rev(h + 55, 4); rev(h + 59, 4); rev(h + 63, 4);
    uint32_t c = crc_std(h, 59);
    h[67] = c >> 24; h[68] = c >> 16; h[69] = c >> 8; h[70] = c;
}

/* ================= acceptance ================= */
int ref_hdr_ok(const uint8_t *h)
{
    uint32_t magic = le32(h + 59), ver = le32(h + 63), sum = le32(h + 67);
    if (ver == 0) return 0;
    if (magic == WIRE_MAGIC) { }
    else if (bswap32_ref(magic) == WIRE_MAGIC) { ver = bswap32_ref(ver); sum = bswap32_ref(sum); }
    else return 0;
    if (ver < 0x010200u) return 1;
    return sum == crc_std(h, 59) || sum == crc_legacy(h, 59);
}
int ref_host_order(const uint8_t *h) { return le32(h + 59) == WIRE_MAGIC; }
int ref_mismatch(const uint8_t *f, size_t frag_len)
{
    int host = ref_host_order(f);
    uint8_t ct = f[20];
    if (ct != 2) return 0;
    uint32_t size = host ? le32(f + 4) : be32(f + 4);
    uint32_t stored = host ? le32(f + 21) : be32(f + 21);
    if ((size_t)size + WIRE_HDR > frag_len) return -1;
    return !(stored == crc_std(f + WIRE_HDR, size) || stored == crc_legacy(f + WIRE_HDR, size));
}

/* ================= XOR golden ================= */
int xor_golden_count(void) { return XOR_GOLDEN_N; }
struct xor_shape xor_golden_get(int i)
{
    struct xor_shape s = { xor_golden[i].k, xor_golden[i].m, xor_golden[i].hd, xor_golden[i].parity };
    return s;
}
const unsigned *xor_golden_find(int k, int m, int hd)
{
    for (int i = 0; i < XOR_GOLDEN_N; i++)
        if (xor_golden[i].k == k && xor_golden[i].m == m && xor_golden[i].hd == hd) return xor_golden[i].parity;
    return NULL;
}
/* Each fragment is a GF(2) vector over the k data unknowns: data i = e_i, parity j = parity[j]. */
static int gf2_rank(uint32_t *rows, int n)
{
    int rank = 0;
    for (int bit = 0; bit < 32; bit++) {
        int p = -1;
        for (int r = rank; r < n; r++) if (rows[r] >> bit & 1) { p = r; break; }
        if (p < 0) continue;
        uint32_t t = rows[p]; rows[p] = rows[rank]; rows[rank] = t;
        for (int r = 0; r < n; r++) if (r != rank && (rows[r] >> bit & 1)) rows[r] ^= rows[rank];
        rank++;
    }
    return rank;
}
int xor_recoverable(const unsigned *parity, int k, int m, uint32_t erased)
{
    uint32_t rows[32]; int n = 0;
    for (int i = 0; i < k + m; i++) if (!(erased >> i & 1)) rows[n++] = i < k ? 1u << i : parity[i - k];
    return gf2_rank(rows, n) == k;
}
int xor_determined(const unsigned *parity, int k, int m, uint32_t have, int t)
{
    uint32_t rows[33]; int n = 0;
    for (int i = 0; i < k + m; i++) if (have >> i & 1) rows[n++] = i < k ? 1u << i : parity[i - k];
    uint32_t tmp[33]; memcpy(tmp, rows, sizeof(uint32_t) * n);
    int r0 = gf2_rank(tmp, n);
    rows[n] = t < k ? 1u << t : parity[t - k];
    int r1 = gf2_rank(rows, n + 1);
    return r0 == r1;
}

/* ================= init / selftest ================= */
int ref_init(void)
{
    if (g16_log) return 0;
    g16_log = malloc(sizeof(uint16_t) * 65536);
    g16_exp = malloc(sizeof(uint16_t) * 2 * 65536);
    uint16_t x = 1;
    for (uint32_t i = 0; i < 65535; i++) {
        g16_log[x] = (uint16_t)i;
        g16_exp[i] = x; g16_exp[i + 65535] = x;
        x = gf16_mul_slow(x, 2);
    }
    if (x != 1) return -1; /* 2 must be primitive for 0x1100b */
    for (int a = 0; a < 256; a++) for (int b = 0; b < 256; b++) g8_mul[a][b] = gf8_mul_slow((uint8_t)a, (uint8_t)b);
    for (int a = 1; a < 256; a++) for (int b = 1; b < 256; b++) if (g8_mul[a][b] == 1) g8_inv[a] = (uint8_t)b;
    return 0;
}

#define ST(c, ...) do { if (!(c)) { fprintf(stderr, "ref selftest failed: " __VA_ARGS__); fprintf(stderr, "\n"); return 1; } } while (0)
int ref_selftest(void)
{
    ST(ref_init() == 0, "gf16 generator element not primitive");
    ST(crc_std("123456789", 9) == 0xCBF43926u, "crc_std check vector");
    /* legacy == std whenever the register's top bit never influences: all-7-bit-clean short inputs still differ
     * in general; golden vectors come from the repository's own metadata crc tests (see tools/setup.py). */
    for (uint32_t a = 1; a < 65536; a += 1) {
        uint16_t iv = gf16_inv((uint16_t)a);
        ST(gf16_mul_slow((uint16_t)a, iv) == 1, "gf16 inverse of %u", a);
    }
    for (uint32_t a = 0; a < 65536; a += 257) for (uint32_t b = 0; b < 65536; b += 263) {
        ST(gf16_mul((uint16_t)a, (uint16_t)b) == gf16_mul_slow((uint16_t)a, (uint16_t)b), "gf16 table mul");
        uint16_t c = (uint16_t)(a * 31 + b * 7 + 5);
        ST((gf16_mul_slow((uint16_t)a, (uint16_t)(b ^ c))) == (gf16_mul_slow((uint16_t)a, (uint16_t)b) ^ gf16_mul_slow((uint16_t)a, c)), "gf16 distributivity");
    }
    for (int a = 1; a < 256; a++) ST(gf8_mul_slow((uint8_t)a, gf8_inv((uint8_t)a)) == 1, "gf8 inverse of %d", a);
    /* golden XOR tables: bit ranges, and minimum distance == hd by enumeration of all data weights <= hd */
    for (int t = 0; t < XOR_GOLDEN_N; t++) {
        int k = xor_golden[t].k, m = xor_golden[t].m, hd = xor_golden[t].hd;
        for (int j = 0; j < m; j++) ST(xor_golden[t].parity[j] < (1u << k) && xor_golden[t].parity[j], "xor table %d bits", t);
        int mind = 99;
        /* codeword weight = wt(d) + number of parities with odd overlap; minimum over nonzero d with wt<=hd */
        uint32_t lim = 1u << k;
        for (uint32_t d = 1; d < lim; d++) {
            int w = __builtin_popcount(d);
            if (w > hd) continue;
            int pw = 0;
            for (int j = 0; j < m; j++) pw += __builtin_popcount(d & xor_golden[t].parity[j]) & 1;
            if (w + pw < mind) mind = w + pw;
        }
        ST(mind == hd, "xor golden table (%d,%d,%d) has distance %d", k, m, hd, mind);
    }
    /* wire: offsets */
    struct wire_fields f = { 1, 2, 3, 0x0807060504030201ull, 2, 0xaabbccdd, 0, 6, 0x010000, WIRE_MAGIC, 0x010604, 0 };
    uint8_t h[WIRE_HDR]; wire_put(h, &f); wire_seal(h, 0);
    ST(h[0] == 1 && h[4] == 2 && h[8] == 3 && h[12] == 1 && h[19] == 8 && h[20] == 2 && h[21] == 0xdd && h[54] == 6 &&
       h[59] == 0xcc && h[62] == 0x0b && h[63] == 4 && h[65] == 1, "wire offsets");
    ST(ref_hdr_ok(h) && ref_host_order(h), "sealed header accepted");
    h[3] ^= 1; ST(!ref_hdr_ok(h), "damaged header rejected"); h[3] ^= 1;
    uint8_t t2[WIRE_HDR]; memcpy(t2, h, WIRE_HDR); wire_byteswap_twin(t2);
    ST(ref_hdr_ok(t2) && !ref_host_order(t2), "twin accepted, not host order");
    struct wire_fields g; wire_get_swapped(t2, &g);
    ST(g.idx == 1 && g.size == 2 && g.orig == f.orig && g.chksum0 == f.chksum0 && g.backend_version == f.backend_version, "twin fields");
    return 0;
}
