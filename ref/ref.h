/* Reference models. Plain C, written independently of the code under test:
 * nothing here includes or calls anything from the repository. */
#ifndef VERIF_REF_H
#define VERIF_REF_H
#include <stdint.h>
#include <stddef.h>

/* ---- GF(2^16), polynomial 0x1100b ---- */
uint16_t gf16_mul_slow(uint16_t a, uint16_t b);   /* shift-and-xor */
uint16_t gf16_mul(uint16_t a, uint16_t b);        /* table built from gf16_mul_slow by ref_init() */
uint16_t gf16_inv(uint16_t a);
/* closed form generator, (k+m) x k: identity on top, row r>=k col j = L_j(r)/L_j(k) */
void gf16_generator(int k, int m, uint16_t *G);

/* ---- GF(2^8), polynomial 0x11d ---- */
uint8_t gf8_mul_slow(uint8_t a, uint8_t b);
uint8_t gf8_mul(uint8_t a, uint8_t b);
uint8_t gf8_inv(uint8_t a);
void gf8_gen_rs_matrix(uint8_t *a, int rows, int k);       /* ISA-L gf_gen_rs_matrix semantics */
void gf8_gen_cauchy1_matrix(uint8_t *a, int rows, int k);  /* ISA-L gf_gen_cauchy1_matrix semantics */

/* ---- generic linear algebra over a field with 16-bit elements ---- */
typedef uint16_t (*fmul_t)(uint16_t, uint16_t);
typedef uint16_t (*finv_t)(uint16_t);
uint16_t gf8_mul16(uint16_t a, uint16_t b);
uint16_t gf8_inv16(uint16_t a);
uint16_t gf2_mul16(uint16_t a, uint16_t b);
uint16_t gf2_inv16(uint16_t a);
/* rank of rows x cols matrix (destroys M) */
int f_rank(uint16_t *M, int rows, int cols, fmul_t mul, finv_t inv);
/* is vector v (cols) in the row span of the first `rows` rows of M?  (copies internally) */
int f_in_span(const uint16_t *M, int rows, int cols, const uint16_t *v, fmul_t mul, finv_t inv);

/* ---- CRC-32 ---- */
uint32_t crc_std(const void *buf, size_t n);     /* reflected 0xEDB88320, bit by bit */
uint32_t crc_legacy(const void *buf, size_t n);  /* historical sign-extending variant, bit by bit */

/* ---- wire format ---- */
#define WIRE_HDR 80
#define WIRE_MAGIC 0x0b0c5eccu
struct wire_fields {
    uint32_t idx, size, bmsize; uint64_t orig; uint8_t ct; uint32_t chksum0; uint8_t mismatch;
    uint8_t backend_id; uint32_t backend_version; uint32_t magic; uint32_t libec_version; uint32_t meta_crc;
};
void wire_put(uint8_t *h, const struct wire_fields *f);            /* all 80 bytes, literal offsets, LE */
void wire_get(const uint8_t *h, struct wire_fields *f);            /* LE loads at literal offsets */
void wire_get_swapped(const uint8_t *h, struct wire_fields *f);    /* BE loads (opposite-endian writer) */
void wire_seal(uint8_t *h, int legacy);                            /* recompute meta crc over bytes 0..58 */
void wire_byteswap_twin(uint8_t *h);   /* rewrite every multi-byte field in the opposite byte order (incl. crc, magic, version) */
static inline uint32_t le32(const uint8_t *p) { return p[0] | p[1] << 8 | p[2] << 16 | (uint32_t)p[3] << 24; }
static inline uint32_t be32(const uint8_t *p) { return p[3] | p[2] << 8 | p[1] << 16 | (uint32_t)p[0] << 24; }
static inline void put_le32(uint8_t *p, uint32_t v) { p[0] = v; p[1] = v >> 8; p[2] = v >> 16; p[3] = v >> 24; }
static inline uint32_t bswap32_ref(uint32_t v) { return v >> 24 | (v >> 8 & 0xff00) | (v << 8 & 0xff0000) | v << 24; }

/* ---- acceptance predicates (C09, C12), on raw bytes ---- */
int ref_hdr_ok(const uint8_t *h);                 /* 1 = accepted */
int ref_host_order(const uint8_t *h);
/* payload checksum mismatch as the metadata query must report it; frag_len bounds the payload read.
 * returns -1 when the claimed size does not fit in frag_len (undefined for the reference) */
int ref_mismatch(const uint8_t *f, size_t frag_len);

/* ---- flat XOR golden tables ---- */
struct xor_shape { int k, m, hd; const unsigned *parity; };
int xor_golden_count(void);
struct xor_shape xor_golden_get(int i);
const unsigned *xor_golden_find(int k, int m, int hd);  /* NULL if unsupported */
/* can erased set E (bitmask over k+m, data bits 0..k-1, parity k..) be recovered? GF(2) rank test */
int xor_recoverable(const unsigned *parity, int k, int m, uint32_t erased);
/* is fragment index t determined by the fragments in `have` (bitmask)? */
int xor_determined(const unsigned *parity, int k, int m, uint32_t have, int t);

int ref_init(void);       /* builds tables */
int ref_selftest(void);   /* 0 = ok; prints diagnostics on failure */
#endif
