/* Self-test of the reference models; run by `vcheck setup` and before any check trusts them. */
#include "ref.h"
#include <stdio.h>
#include <string.h>
#include <zlib.h>

int main(void)
{
    if (ref_selftest()) return 1;
    /* crc_std agrees with the system zlib on the content alphabet */
    unsigned char buf[2048];
    for (int pat = 0; pat < 3; pat++)
        for (int n = 0; n <= 2048; n += (n < 70 ? 1 : 97)) {
            for (int i = 0; i < n; i++) buf[i] = pat == 0 ? (unsigned char)(131 * i + 7 + 17 * (i >> 8)) : pat == 1 ? 0xff : (i == n - 1 ? 0x81 : 0);
            if (crc_std(buf, (size_t)n) != (uint32_t)crc32(0, buf, (unsigned)n)) { fprintf(stderr, "crc_std != zlib at n=%d pat=%d\n", n, pat); return 1; }
        }
    /* golden vector for the historical CRC: a header observed in the wild (copied from the repository's
     * test_metadata_crcs_le): legacy checksum 0xb945ee22, zlib checksum 0x1873f8ec over its first 59 bytes */
    static const unsigned char hdr[80] =
        "\x03\x00\x00\x00\x00\x00\x04\x00\x00\x00\x00\x00\x00\x00\x10\x00"
        "\x00\x00\x00\x00\x01\x00\x00\x00\x00\x00\x00\x00\x00\x00\x00\x00"
        "\x00\x00\x00\x00\x00\x00\x00\x00\x00\x00\x00\x00\x00\x00\x00\x00"
        "\x00\x00\x00\x00\x00\x00\x07\x01\x0e\x02\x00\xcc\x5e\x0c\x0b\x00"
        "\x04\x01\x00\x22\xee\x45\xb9\x00\x00\x00\x00\x00\x00\x00\x00";
    if (crc_legacy(hdr, 59) != 0xb945ee22u) { fprintf(stderr, "crc_legacy golden vector: got %08x\n", crc_legacy(hdr, 59)); return 1; }
    if (crc_std(hdr, 59) != 0x1873f8ecu) { fprintf(stderr, "crc_std golden vector: got %08x\n", crc_std(hdr, 59)); return 1; }
    if (!ref_hdr_ok(hdr)) { fprintf(stderr, "golden legacy header rejected\n"); return 1; }
    printf("reference models ok\n");
    return 0;
}
