/* Common harness machinery — see vh.h */
#include "vh.h"
#include <stdio.h>
#include <stdlib.h>
#include <string.h>
#include <unistd.h>
#include <fcntl.h>
#include <errno.h>
#include <signal.h>
#include <time.h>
#include <pthread.h>
#include <sys/mman.h>
#include <sys/wait.h>
#include <sys/resource.h>
#include <sys/stat.h>
#include <dlfcn.h>

/* =====================================================================
 *  syslog interposition: the executable's definitions win over libc's
 * ===================================================================== */
long vh_syslog_calls;
/* the message is formatted (into a scratch buffer that is thrown away) exactly as the real syslog would: a bad argument for a
 * conversion - a NULL or dangling %s - must fault here as it would there */
void syslog(int pri, const char *fmt, ...) { (void)pri; char b[512]; va_list ap; va_start(ap, fmt); vsnprintf(b, sizeof b, fmt, ap); va_end(ap); __atomic_fetch_add(&vh_syslog_calls, 1, __ATOMIC_RELAXED); }
void vsyslog(int pri, const char *fmt, va_list ap) { (void)pri; char b[512]; vsnprintf(b, sizeof b, fmt, ap); __atomic_fetch_add(&vh_syslog_calls, 1, __ATOMIC_RELAXED); }
void __syslog_chk(int pri, int flag, const char *fmt, ...) { (void)pri; (void)flag; char b[512]; va_list ap; va_start(ap, fmt); vsnprintf(b, sizeof b, fmt, ap); va_end(ap); __atomic_fetch_add(&vh_syslog_calls, 1, __ATOMIC_RELAXED); }
void openlog(const char *ident, int option, int facility) { (void)ident; (void)option; (void)facility; }
void closelog(void) { }

/* =====================================================================
 *  ledger
 * ===================================================================== */
#define LEDGER_MAX 65536
static struct { void *p; size_t n; } led[LEDGER_MAX];
static int led_n;
static long led_bytes, led_total;
static unsigned long led_serial;
int ledger_fail_after = -1;
/* The ledger's own lock must not be visible to ThreadSanitizer: a pthread mutex taken on every library allocation would
 * order the threads of engine T at each malloc/free (release -> acquire), and TSan would then miss conflicting accesses in
 * the library that no lock *of the library* orders. So: a spin lock in inline assembly, and no instrumentation of the
 * ledger's own accesses (they are protected by that lock). */
#if defined(__SANITIZE_THREAD__)
#define NO_TSAN __attribute__((no_sanitize_thread, noinline))
#else
#define NO_TSAN
#endif
static volatile int led_lock;
static NO_TSAN void led_acquire(void)
{
    for (;;) { int old = 1; __asm__ __volatile__("xchgl %0, %1" : "+r"(old), "+m"(led_lock) : : "memory"); if (!old) return; __asm__ __volatile__("pause"); }
}
static NO_TSAN void led_release(void) { __asm__ __volatile__("" : : : "memory"); led_lock = 0; }

static NO_TSAN void led_add(void *p, size_t n)
{
    if (!p) return;
    led_acquire();
    if (led_n < LEDGER_MAX) { led[led_n].p = p; led[led_n].n = n; led_n++; }
    led_bytes += (long)n; led_total++; led_serial++;
    led_release();
}
static NO_TSAN int led_del(void *p)
{
    int found = 0;
    led_acquire();
    for (int i = led_n - 1; i >= 0; i--)
        if (led[i].p == p) { led_bytes -= (long)led[i].n; led[i] = led[led_n - 1]; led_n--; found = 1; break; }
    led_release();
    return found;
}
NO_TSAN long ledger_count(void) { return led_n; }
NO_TSAN long ledger_bytes(void) { return led_bytes; }
NO_TSAN long ledger_allocs_total(void) { return led_total; }
NO_TSAN unsigned long ledger_mark(void) { return led_serial; }
NO_TSAN int ledger_has(const void *p) { for (int i = led_n - 1; i >= 0; i--) if (led[i].p == p) return 1; return 0; }
NO_TSAN long ledger_size_of(const void *p) { for (int i = led_n - 1; i >= 0; i--) if (led[i].p == p) return (long)led[i].n; return -1; }
NO_TSAN void ledger_dump(char *buf, size_t n)
{
    size_t o = 0; buf[0] = 0;
    for (int i = 0; i < led_n && o + 32 < n; i++) o += (size_t)snprintf(buf + o, n - o, "%zu ", led[i].n);
}
static int foreign_frees;
/* ---- allocation-failure injection (engine M). Armed by the engine around ONE public call: the n-th allocation request that
 * comes from the selected object (the front end, liberasurecode.so.1) fails, and with alloc_fail_from every later one as well. */
long alloc_fail_at, alloc_fail_from, alloc_seen, alloc_failed;
static void *alloc_obj_base;
void alloc_fault_scope(void *any_symbol_in_object) { Dl_info di; alloc_obj_base = (any_symbol_in_object && dladdr(any_symbol_in_object, &di)) ? di.dli_fbase : NULL; }
static NO_TSAN int alloc_must_fail(void *ra)
{
    if (!alloc_obj_base) return 0;
    { Dl_info di; if (!dladdr(ra, &di) || di.dli_fbase != alloc_obj_base) return 0; }
    alloc_seen++;
    if ((alloc_fail_at && alloc_seen == alloc_fail_at) || (alloc_fail_from && alloc_seen >= alloc_fail_from)) { alloc_failed++; return 1; }
    return 0;
}
#define RA __builtin_extract_return_addr(__builtin_return_address(0))
/* no workload of any engine needs the library to hold more than a few MiB (1 MiB objects, 32 fragments, 1 MiB of GF tables): a single
 * request of 1 GiB or 3 GiB live is a runaway (a length that went negative, a loop that lost its bound). It is reported and this
 * process ends before the machine's memory does; the supervisor resumes after the case. */
static NO_TSAN void led_guard(size_t n)
{
    if (n < ((size_t)1 << 30) && (size_t)led_bytes + n < ((size_t)3 << 30)) return;
    vh_violation("allocation-runaway", "library asks for %zu bytes with %ld bytes in %d blocks live", n, led_bytes, led_n);
    fprintf(stderr, "allocation runaway: request of %zu bytes with %ld live\n", n, led_bytes); fflush(NULL);
    _exit(76);
}
void *__wrap_malloc(size_t n) { if (alloc_must_fail(RA)) { errno = ENOMEM; return NULL; } led_guard(n); void *p = malloc(n); led_add(p, n); return p; }
void *__wrap_calloc(size_t a, size_t b) { if (alloc_must_fail(RA)) { errno = ENOMEM; return NULL; } led_guard(b && a > ((size_t)1 << 40) / b ? (size_t)1 << 40 : a * b); void *p = calloc(a, b); led_add(p, a * b); return p; }
void *__wrap_realloc(void *q, size_t n)
{
    if (alloc_must_fail(RA)) { errno = ENOMEM; return NULL; }
    led_guard(n);
    if (q) led_del(q);
    void *p = realloc(q, n); led_add(p, n); return p;
}
int __wrap_posix_memalign(void **out, size_t al, size_t n)
{
    if (alloc_must_fail(RA)) return ENOMEM;
    led_guard(n);
    int rc = posix_memalign(out, al, n);
    if (rc == 0) led_add(*out, n);
    return rc;
}
char *__wrap_strdup(const char *s)
{
    if (alloc_must_fail(RA)) { errno = ENOMEM; return NULL; }
    size_t n = strlen(s) + 1; char *p = malloc(n);
    if (p) { memcpy(p, s, n); led_add(p, n); }
    return p;
}
/* the other allocating entry points of libc, so that a library that switches to one of them is still accounted for (and its
 * later free() is not mistaken for a foreign one) */
void *__wrap_aligned_alloc(size_t al, size_t n) { if (alloc_must_fail(RA)) { errno = ENOMEM; return NULL; } led_guard(n); void *p = aligned_alloc(al, n); led_add(p, n); return p; }
void *__wrap_memalign(size_t al, size_t n) { if (alloc_must_fail(RA)) { errno = ENOMEM; return NULL; } led_guard(n); void *p = NULL; if (posix_memalign(&p, al < sizeof(void *) ? sizeof(void *) : al, n)) p = NULL; led_add(p, n); return p; }
void *__wrap_valloc(size_t n) { if (alloc_must_fail(RA)) { errno = ENOMEM; return NULL; } led_guard(n); void *p = NULL; if (posix_memalign(&p, (size_t)sysconf(_SC_PAGESIZE), n)) p = NULL; led_add(p, n); return p; }
void *__wrap_reallocarray(void *q, size_t a, size_t b)
{
    if (alloc_must_fail(RA)) { errno = ENOMEM; return NULL; }
    if (b && a > (size_t)-1 / b) { errno = ENOMEM; return NULL; }
    led_guard(a * b);
    if (q) led_del(q);
    void *p = realloc(q, a * b); led_add(p, a * b); return p;
}
char *__wrap_strndup(const char *s, size_t n)
{
    if (alloc_must_fail(RA)) { errno = ENOMEM; return NULL; }
    size_t l = strnlen(s, n); char *p = malloc(l + 1);
    if (p) { memcpy(p, s, l); p[l] = 0; led_add(p, l + 1); }
    return p;
}
int __wrap_vasprintf(char **out, const char *fmt, va_list ap)
{
    if (alloc_must_fail(RA)) { *out = NULL; return -1; }
    int n = vasprintf(out, fmt, ap);
    if (n >= 0 && *out) led_add(*out, (size_t)n + 1);
    return n;
}
int __wrap_asprintf(char **out, const char *fmt, ...)
{
    if (alloc_must_fail(RA)) { *out = NULL; return -1; }
    va_list ap; va_start(ap, fmt); int n = vasprintf(out, fmt, ap); va_end(ap);
    if (n >= 0 && *out) led_add(*out, (size_t)n + 1);
    return n;
}
void __wrap_free(void *p)
{
    if (!p) return;
    if (!led_del(p)) {
        /* a block the library never obtained (or already released): double / foreign free */
        foreign_frees++;
        vh_violation("free-of-unowned-block", "library freed %p which is not a live library allocation (double or foreign free)", p);
        return;
    }
    free(p);
}

void vh_lib_free(void *p) { __wrap_free(p); }

/* =====================================================================
 *  guarded placement
 * ===================================================================== */
#define PG 4096u
uint8_t *gbuf_alloc(gbuf_t *g, size_t len, int mode)
{
    size_t pages = (len + 16 + PG - 1) / PG; if (!pages) pages = 1;
    g->maplen = (pages + 2) * PG;
    g->map = mmap(NULL, g->maplen, PROT_NONE, MAP_PRIVATE | MAP_ANONYMOUS, -1, 0);
    if (g->map == MAP_FAILED) { perror("mmap"); exit(2); }
    uint8_t *mid = (uint8_t *)g->map + PG, *end = mid + pages * PG;
    mprotect(mid, pages * PG, PROT_READ | PROT_WRITE);
    memset(mid, 0xA5, pages * PG);
    if (mode == GP_START16) g->p = mid;
    else if (mode == GP_END) g->p = end - len;
    else { uint8_t *p = end - len; while (((uintptr_t)p & 15) != 1) p--; g->p = p; }
    g->len = len;
    return g->p;
}
void gbuf_readonly(gbuf_t *g) { mprotect((uint8_t *)g->map + PG, g->maplen - 2 * PG, PROT_READ); }
void gbuf_writable(gbuf_t *g) { mprotect((uint8_t *)g->map + PG, g->maplen - 2 * PG, PROT_READ | PROT_WRITE); }
void gbuf_free(gbuf_t *g) { if (g->map) munmap(g->map, g->maplen); g->map = NULL; g->p = NULL; }

/* =====================================================================
 *  misc
 * ===================================================================== */
uint64_t vh_hash(const void *p, size_t n)
{
    const uint8_t *b = p; uint64_t h = 1469598103934665603ull;
    for (size_t i = 0; i < n; i++) { h ^= b[i]; h *= 1099511628211ull; }
    return h;
}
const char *vh_pat_name[PAT_N] = { "ramp", "impulse-last", "zero", "ones", "impulse-first", "header-magic" };
void vh_fill(uint8_t *p, size_t n, int pattern)
{
    switch (pattern) {
    case PAT_RAMP: for (size_t i = 0; i < n; i++) p[i] = (uint8_t)(131 * i + 7 + 17 * (i >> 8)); break;
    case PAT_ZERO: memset(p, 0, n); break;
    case PAT_ONES: memset(p, 0xff, n); break;
    case PAT_IMPULSE_FIRST: memset(p, 0, n); if (n) p[0] = 0x81; break;
    case PAT_IMPULSE_LAST: memset(p, 0, n); if (n) p[n - 1] = 0x81; break;
    /* payload that looks like fragment headers: the header magic 0x0b0c5ecc (little endian) at every offset = 3 (mod 4), hence at
     * offset 59 of every block whose start is a multiple of 4 - where a header keeps its magic */
    case PAT_MAGIC: { static const uint8_t mg[4] = { 0x5e, 0x0c, 0x0b, 0xcc }; for (size_t i = 0; i < n; i++) p[i] = mg[i & 3]; break; }
    }
}

/* =====================================================================
 *  enumerator / supervisor
 * ===================================================================== */
#define MAXW 64
#define MAXG (1u << 22)
#define HSET_CAP (1u << 23)
#define NSAMP 6
struct wslot {
    volatile long cur_group, cur_case, heartbeat;
    char gkey[320], ckey[448], op[128];
    long resume_group, resume_case;
    long cases, transitions, nontrivial, groups_done, distinct, saturated, restarts, violations, hangs;
    long extra[16]; char extra_name[16][32];
    char samples[NSAMP][768]; long sample_seq[NSAMP];
    char last_key[768];
    int case_nontrivial;
};
struct shared {
    volatile long total_groups;       /* set by any executor that finishes the enumeration */
    volatile long deadline_hit;
    volatile long stop;               /* too many violations */
    volatile long nviol;
    struct wslot w[MAXW];
    unsigned char claimed[MAXG];
};
static struct shared *SH;
static uint64_t *HSET;                /* per worker, MAP_SHARED so counts survive a crash */
static int W = 0, NW = 1;
static const char *opt_plan = "", *opt_tier = "quick", *opt_out = NULL, *opt_only = NULL;
static double opt_deadline = 0, opt_case_timeout = 20;
static long opt_maxviol = 25;
static int opt_first;              /* --first: stop the whole run at the first violation (history replays) */
static char *opt_kv[64]; static int opt_nkv;
static double t0;
static int out_fd = -1;
/* executor-local */
static long x_group = -1, x_case = 0;
static int x_in_group, x_resuming;

static double now(void) { struct timespec ts; clock_gettime(CLOCK_MONOTONIC, &ts); return ts.tv_sec + ts.tv_nsec * 1e-9; }
const char *vh_plan(void) { return opt_plan; }
const char *vh_tier(void) { return opt_tier; }
int vh_replaying(void) { return opt_only != NULL; }
long vh_opt(const char *name, long dflt)
{
    size_t n = strlen(name);
    for (int i = 0; i < opt_nkv; i++) if (!strncmp(opt_kv[i], name, n) && opt_kv[i][n] == '=') return atol(opt_kv[i] + n + 1);
    return dflt;
}
int vh_deadline_passed(void) { return opt_deadline > 0 && now() - t0 > opt_deadline; }

static void out_line(const char *tag, const char *a, const char *b, const char *c)
{
    char buf[4096]; size_t o = 0;
    const char *parts[4] = { tag, a, b, c };
    for (int i = 0; i < 4 && parts[i]; i++) {
        if (i) buf[o++] = '\t';
        for (const char *s = parts[i]; *s && o + 4 < sizeof buf; s++) {
            if (*s == '\t' || *s == '\n' || *s == '\r') buf[o++] = ' '; else buf[o++] = *s;
        }
    }
    buf[o++] = '\n';
    if (out_fd >= 0) { ssize_t r = write(out_fd, buf, o); (void)r; }
}

static void cur_key(char *buf, size_t n)
{
    struct wslot *s = &SH->w[W];
    if (s->cur_case == 0) snprintf(buf, n, "%s/setup", s->gkey);
    else snprintf(buf, n, "%s/%s", s->gkey, s->ckey);
}

int vh_group_begin(const char *fmt, ...)
{
    struct wslot *s = &SH->w[W];
    char key[320]; va_list ap; va_start(ap, fmt); vsnprintf(key, sizeof key, fmt, ap); va_end(ap);
    x_group++; x_case = 0; x_in_group = 0; x_resuming = 0;
    s->heartbeat++;
    if (x_group >= (long)MAXG) { fprintf(stderr, "too many groups\n"); exit(2); }
    if (opt_only) {
        size_t n = strlen(key);
        if (strncmp(opt_only, key, n) || opt_only[n] != '/') return 0;
    } else if (s->resume_group >= 0 && x_group == s->resume_group) {
        long rc = s->resume_case;
        s->resume_group = -1;
        if (rc == 0) return 0;          /* the group's setup itself crashed: skip the group */
        x_resuming = 1;
    } else {
        if (SH->stop) return 0;
        if (__atomic_load_n(&SH->claimed[x_group], __ATOMIC_ACQUIRE)) return 0;
        if (vh_deadline_passed()) { SH->deadline_hit = 1; return 0; }
        if (__atomic_exchange_n(&SH->claimed[x_group], 1, __ATOMIC_ACQ_REL)) return 0;
    }
    snprintf(s->gkey, sizeof s->gkey, "%s", key);
    s->ckey[0] = 0; s->op[0] = 0;
    s->cur_group = x_group; s->cur_case = 0;
    x_in_group = 1;
    return 1;
}
void vh_group_end(void)
{
    if (x_in_group) { SH->w[W].groups_done++; x_in_group = 0; }
}
static void finish_case(struct wslot *s) { if (s->case_nontrivial) { s->nontrivial++; s->case_nontrivial = 0; } }
int vh_case_begin(const char *fmt, ...)
{
    struct wslot *s = &SH->w[W];
    if (!x_in_group) return 0;
    finish_case(s);
    x_case++;
    if (opt_first && SH->stop) return 0;
    if (x_resuming && x_case <= s->resume_case) return 0;
    char key[448]; va_list ap; va_start(ap, fmt); vsnprintf(key, sizeof key, fmt, ap); va_end(ap);
    if (opt_only) {
        size_t n = strlen(s->gkey);
        if (strcmp(opt_only + n + 1, key)) return 0;
    }
    memcpy(s->ckey, key, strlen(key) + 1);
    s->cur_case = x_case; s->op[0] = 0;
    s->heartbeat++;
    s->cases++;
    /* measured distinctness of keys */
    char full[768]; int fl = snprintf(full, sizeof full, "%s/%s", s->gkey, key);
    uint64_t h = vh_hash(full, (size_t)fl) | 1;
    if (s->distinct * 4 < (long)HSET_CAP * 3) {
        uint32_t i = (uint32_t)(h >> 7) & (HSET_CAP - 1);
        while (HSET[i] && HSET[i] != h) i = (i + 1) & (HSET_CAP - 1);
        if (!HSET[i]) { HSET[i] = h; s->distinct++; }
    } else s->saturated = 1;
    /* samples: first, then at doubling sequence numbers (the reporter picks a spread), and last */
    long c = s->cases;
    if ((c & (c - 1)) == 0) {
        int slot = 0; long cc = c; while (cc > 1) { cc >>= 2; slot++; }
        if (slot >= NSAMP) slot = NSAMP - 1;
        memcpy(s->samples[slot], full, (size_t)fl + 1); s->sample_seq[slot] = c;
    }
    memcpy(s->last_key, full, (size_t)fl + 1);
    return 1;
}
void vh_op(const char *op) { struct wslot *s = &SH->w[W]; snprintf(s->op, sizeof s->op, "%s", op); }
void vh_transitions(long n) { SH->w[W].transitions += n; }
void vh_nontrivial(void) { SH->w[W].case_nontrivial = 1; }
void vh_count(const char *name, long n)
{
    struct wslot *s = &SH->w[W];
    for (int i = 0; i < 16; i++) {
        if (!s->extra_name[i][0]) snprintf(s->extra_name[i], 32, "%s", name);
        if (!strcmp(s->extra_name[i], name)) { s->extra[i] += n; return; }
    }
}
static int quiet;
void vh_quiet(int q) { quiet = q; }
const char *vh_only_key(void) { return opt_only; }
void vh_scratch_path(char *buf, size_t n, const char *suffix) { snprintf(buf, n, "%s.w%d.%s", opt_out, W, suffix); }
/* resident set of a process in MiB (0 if it cannot be read) */
long vh_rss_mb(pid_t pid)
{
    char pth[64], b[128]; snprintf(pth, sizeof pth, "/proc/%d/statm", (int)pid);
    int fd = open(pth, O_RDONLY); if (fd < 0) return 0;
    ssize_t n = read(fd, b, sizeof b - 1); close(fd); if (n <= 0) return 0; b[n] = 0;
    long size = 0, res = 0; if (sscanf(b, "%ld %ld", &size, &res) != 2) return 0;
    return res * (sysconf(_SC_PAGESIZE) / 1024) / 1024;
}
/* wait for a child an engine forked for one execution; a child that grows beyond the limit is ended (returns 1) */
int vh_wait_child(pid_t p, int *status)
{
    /* sleep on SIGCHLD (blocked, taken synchronously) so that the child's exit wakes us at once; look at its size every 50 ms */
    sigset_t m, old; sigemptyset(&m); sigaddset(&m, SIGCHLD); sigprocmask(SIG_BLOCK, &m, &old);
    int killed = 0;
    for (;;) {
        pid_t r = waitpid(p, status, WNOHANG);
        if (r == p) break;
        if (r < 0) { *status = 0; break; }
        struct timespec to = { 0, 50 * 1000 * 1000 };
        if (sigtimedwait(&m, NULL, &to) < 0 && vh_rss_mb(p) > VH_RSS_LIMIT_MB) { kill(p, SIGKILL); waitpid(p, status, 0); killed = 1; break; }
    }
    sigprocmask(SIG_SETMASK, &old, NULL);
    return killed;
}

void vh_violation(const char *site, const char *fmt, ...)
{
    if (!SH || quiet) return;
    struct wslot *s = &SH->w[W];
    char key[800], det[2048], st[320];
    cur_key(key, sizeof key);
    va_list ap; va_start(ap, fmt); vsnprintf(det, sizeof det, fmt, ap); va_end(ap);
    snprintf(st, sizeof st, "site:%s:%s", s->op[0] ? s->op : "-", site);
    out_line("V", key, st, det);
    s->violations++;
    if (__atomic_add_fetch(&SH->nviol, 1, __ATOMIC_RELAXED) >= opt_maxviol * 40 || opt_first) SH->stop = 1;
    /* a harness loop that keeps reporting must not be able to fill the disk: far beyond any useful number of reports the executor
     * ends the run (exit 0: everything reported so far stands, no further groups are claimed because stop is set) */
    if (s->violations > 20000) { SH->stop = 1; fflush(NULL); _exit(0); }
}
long vh_violations(void) { return SH ? SH->w[W].violations : 0; }
void vh_note(const char *fmt, ...)
{
    char det[1024]; va_list ap; va_start(ap, fmt); vsnprintf(det, sizeof det, fmt, ap); va_end(ap);
    out_line("N", det, NULL, NULL);
}

/* read the tail of the executor's stderr to classify a sanitizer abort */
void vh_classify_crash(const char *errfile, int sig, char *cls, size_t ncls, char *detail, size_t ndet)
{
    snprintf(cls, ncls, "signal-%s", sig == SIGSEGV ? "SIGSEGV" : sig == SIGFPE ? "SIGFPE" : sig == SIGABRT ? "SIGABRT" :
             sig == SIGBUS ? "SIGBUS" : sig == SIGKILL ? "SIGKILL" : "other");
    detail[0] = 0;
    FILE *f = fopen(errfile, "r");
    if (!f) return;
    static char buf[65536];
    size_t n = fread(buf, 1, sizeof buf - 1, f); buf[n] = 0; fclose(f);
    char *e = strstr(buf, "ERROR: AddressSanitizer");
    if (!e) e = strstr(buf, "ERROR: ThreadSanitizer");
    if (!e) e = strstr(buf, "Assertion");
    if (e) {
        char *c = strchr(e, ':'); c = c ? strchr(c + 1, ':') : NULL;
        if (c) {
            c += 2; char word[64]; int i = 0;
            while (c[i] && c[i] != ' ' && c[i] != '\n' && i < 63) { word[i] = c[i]; i++; }
            word[i] = 0;
            snprintf(cls, ncls, "asan-%s", word);
        }
        /* first frames */
        size_t o = 0;
        for (char *p = e; *p && o + 2 < ndet && o < 1400; p++) detail[o++] = (*p == '\n' || *p == '\t') ? ' ' : *p;
        detail[o] = 0;
    } else {
        size_t st = n > 600 ? n - 600 : 0, o = 0;
        for (size_t i = st; i < n && o + 2 < ndet; i++) detail[o++] = (buf[i] == '\n' || buf[i] == '\t') ? ' ' : buf[i];
        detail[o] = 0;
    }
}

static vh_engine_fn ENGINE;

static int run_worker(void)
{
    struct wslot *s = &SH->w[W];
    char errfile[1024]; snprintf(errfile, sizeof errfile, "%s.w%d.err", opt_out, W);
    s->resume_group = -1; s->resume_case = -1;
    for (;;) {
        fflush(NULL);
        pid_t pid = fork();
        if (pid < 0) { perror("fork"); return 2; }
        if (pid == 0) {
            int fd = open(errfile, O_WRONLY | O_CREAT | O_TRUNC, 0644);
            if (fd >= 0) { dup2(fd, 2); close(fd); }
            struct rlimit rl = { 0, 0 }; setrlimit(RLIMIT_CORE, &rl);
            setpgid(0, 0);                      /* the executor and whatever it forks: one group, ended together */
            x_group = -1;
            ENGINE();
            finish_case(s);
            SH->total_groups = x_group + 1;
            fflush(NULL);
            _exit(0);
        }
        long hb = s->heartbeat; double last = now(); int status = 0; int hung = 0, bloated = 0;
        for (;;) {
            pid_t r = waitpid(pid, &status, WNOHANG);
            if (r == pid) break;
            struct timespec ts = { 0, 20 * 1000 * 1000 }; nanosleep(&ts, NULL);
            if (vh_rss_mb(pid) > VH_EXECUTOR_RSS_LIMIT_MB) { bloated = 1; kill(-pid, SIGKILL); kill(pid, SIGKILL); waitpid(pid, &status, 0); break; }
            if (s->heartbeat != hb) { hb = s->heartbeat; last = now(); }
            else if (now() - last > opt_case_timeout) { hung = 1; kill(-pid, SIGKILL); kill(pid, SIGKILL); waitpid(pid, &status, 0); break; }
        }
        kill(-pid, SIGKILL);                    /* children an executor left behind when it died */
        if (!hung && WIFEXITED(status) && WEXITSTATUS(status) == 0) return 0;
        if (!hung && WIFEXITED(status) && WEXITSTATUS(status) == 2) { out_line("E", "executor reported a harness error", NULL, NULL); return 2; }
        /* crash / hang: attribute to the current case */
        char key[800], cls[96], det[2048], st[320];
        cur_key(key, sizeof key);
        if (bloated) { snprintf(cls, sizeof cls, "memory-runaway"); snprintf(det, sizeof det, "the process executing this case grew beyond %d MiB resident and was ended", VH_EXECUTOR_RSS_LIMIT_MB); }
        else if (hung) { snprintf(cls, sizeof cls, "hang"); snprintf(det, sizeof det, "no progress for %.0f s", opt_case_timeout);
                    /* every hang costs the full time limit: three in one worker are enough to report, stop the run */
                    if (++s->hangs >= 3) SH->stop = 1; }
        else if (WIFSIGNALED(status)) vh_classify_crash(errfile, WTERMSIG(status), cls, sizeof cls, det, sizeof det);
        else { vh_classify_crash(errfile, 0, cls, sizeof cls, det, sizeof det); if (!strncmp(cls, "signal", 6)) snprintf(cls, sizeof cls, "exit-%d", WEXITSTATUS(status)); }
        snprintf(st, sizeof st, "site:%s:%s", s->op[0] ? s->op : "-", cls);
        out_line("V", key, st, det);
        s->violations++; s->restarts++;
        finish_case(s);
        if (opt_first) { SH->stop = 1; return 0; }
        if (opt_only) { FILE *ef = fopen(errfile, "r"); if (ef) { char b[4096]; size_t n; while ((n = fread(b, 1, sizeof b, ef)) > 0) fwrite(b, 1, n, stderr); fclose(ef); } return 0; }
        if (s->restarts >= opt_maxviol * 4 || __atomic_add_fetch(&SH->nviol, 1, __ATOMIC_RELAXED) >= opt_maxviol * 40) { SH->stop = 1; return 0; }
        s->resume_group = s->cur_group; s->resume_case = s->cur_case;
    }
}

int vh_main(int argc, char **argv, vh_engine_fn fn)
{
    ENGINE = fn; t0 = now();
    for (int i = 1; i < argc; i++) {
        if (!strcmp(argv[i], "--plan") && i + 1 < argc) opt_plan = argv[++i];
        else if (!strcmp(argv[i], "--tier") && i + 1 < argc) opt_tier = argv[++i];
        else if (!strcmp(argv[i], "--workers") && i + 1 < argc) NW = atoi(argv[++i]);
        else if (!strcmp(argv[i], "--out") && i + 1 < argc) opt_out = argv[++i];
        else if (!strcmp(argv[i], "--only") && i + 1 < argc) opt_only = argv[++i];
        else if (!strcmp(argv[i], "--deadline") && i + 1 < argc) opt_deadline = atof(argv[++i]);
        else if (!strcmp(argv[i], "--case-timeout") && i + 1 < argc) opt_case_timeout = atof(argv[++i]);
        else if (!strcmp(argv[i], "--max-violations") && i + 1 < argc) opt_maxviol = atol(argv[++i]);
        else if (!strcmp(argv[i], "--first")) opt_first = 1;
        else if (!strcmp(argv[i], "--opt") && i + 1 < argc) { if (opt_nkv < 64) opt_kv[opt_nkv++] = argv[++i]; }
        else { fprintf(stderr, "unknown argument %s\n", argv[i]); return 2; }
    }
    if (!opt_out) { fprintf(stderr, "--out required\n"); return 2; }
    /* pin the plug-ins so that create/destroy do not load and unload them every time (--opt pin_plugins=0: engines whose
     * subject is the instance life cycle, where a surplus dlclose must be able to unmap the library) */
    if (vh_opt("pin_plugins", 1)) { dlopen("libisal.so.2", RTLD_NOW | RTLD_LOCAL); dlopen("libnullcode.so.1", RTLD_NOW | RTLD_LOCAL); }
    if (opt_only) NW = 1;
    if (NW < 1) NW = 1;
    if (NW > MAXW) NW = MAXW;
    SH = mmap(NULL, sizeof *SH, PROT_READ | PROT_WRITE, MAP_SHARED | MAP_ANONYMOUS | MAP_NORESERVE, -1, 0);
    if (SH == MAP_FAILED) { perror("mmap"); return 2; }
    SH->total_groups = -1;
    out_fd = open(opt_out, O_WRONLY | O_CREAT | O_TRUNC | O_APPEND, 0644);
    if (out_fd < 0) { perror(opt_out); return 2; }
    pid_t pids[MAXW]; int rc = 0;
    for (int w = 0; w < NW; w++) {
        pid_t p = fork();
        if (p == 0) {
            W = w;
            HSET = mmap(NULL, sizeof(uint64_t) * HSET_CAP, PROT_READ | PROT_WRITE, MAP_SHARED | MAP_ANONYMOUS | MAP_NORESERVE, -1, 0);
            if (HSET == MAP_FAILED) { perror("mmap"); _exit(2); }
            _exit(run_worker());
        }
        pids[w] = p;
    }
    for (int w = 0; w < NW; w++) { int st; waitpid(pids[w], &st, 0); if (!WIFEXITED(st) || WEXITSTATUS(st)) rc = 2; }
    /* summary */
    long cases = 0, trans = 0, nontriv = 0, gdone = 0, distinct = 0, sat = 0, restarts = 0, viol = 0;
    char num[64];
    for (int w = 0; w < NW; w++) {
        struct wslot *s = &SH->w[w];
        cases += s->cases; trans += s->transitions; nontriv += s->nontrivial; gdone += s->groups_done;
        distinct += s->distinct; sat |= s->saturated; restarts += s->restarts; viol += s->violations;
    }
    long unclaimed = 0, first_unclaimed = -1;
    if (SH->total_groups >= 0 && !opt_only)
        for (long g = 0; g < SH->total_groups; g++) if (!SH->claimed[g]) { unclaimed++; if (first_unclaimed < 0) first_unclaimed = g; }
#define CNT(name, v) do { snprintf(num, sizeof num, "%ld", (long)(v)); out_line("C", name, num, NULL); } while (0)
    CNT("cases", cases); CNT("transitions", trans); CNT("nontrivial", nontriv); CNT("groups_done", gdone);
    CNT("groups_total", SH->total_groups); CNT("groups_unclaimed", unclaimed); CNT("first_unclaimed_group", first_unclaimed);
    CNT("distinct", distinct); CNT("distinct_saturated", sat); CNT("restarts", restarts); CNT("violations", viol);
    CNT("deadline_hit", SH->deadline_hit); CNT("stopped_early", SH->stop); CNT("workers", NW);
    /* extras: union of names */
    {
        char names[64][32]; long vals[64]; int nn = 0;
        for (int w = 0; w < NW; w++) for (int j = 0; j < 16; j++) {
            const char *nm = SH->w[w].extra_name[j]; if (!nm[0]) continue;
            int k; for (k = 0; k < nn; k++) if (!strcmp(names[k], nm)) break;
            if (k == nn && nn < 64) { snprintf(names[nn], 32, "%s", nm); vals[nn] = 0; nn++; }
            if (k < 64) vals[k] += SH->w[w].extra[j];
        }
        for (int k = 0; k < nn; k++) { char nm[48]; snprintf(nm, sizeof nm, "x_%s", names[k]); CNT(nm, vals[k]); }
    }
    for (int w = 0; w < NW; w++) {
        struct wslot *s = &SH->w[w];
        for (int i = 0; i < NSAMP; i++) if (s->samples[i][0]) out_line("K", s->samples[i], NULL, NULL);
        if (s->last_key[0]) out_line("L", s->last_key, NULL, NULL);
    }
    snprintf(num, sizeof num, "%.2f", now() - t0); out_line("C", "wall_s", num, NULL);
    out_line("D", "done", NULL, NULL);
    close(out_fd);
    return rc;
}
