/* Serialising scheduler for engine T.  Compiled WITHOUT sanitizer instrumentation:
 * hand-offs use raw futex system calls and are therefore invisible to ThreadSanitizer,
 * whose happens-before analysis then treats the serialised threads as concurrent and
 * reports every pair of conflicting accesses that no *real* lock orders.
 *
 * Exactly one worker thread runs at a time.  Scheduling points are the library's
 * VERIF_YIELD hooks and every pthread rwlock / mutex operation (interposed below).
 * A thread that asks for an unavailable lock becomes disabled instead of blocking. */
#define _GNU_SOURCE
#include "vsched.h"
#include <pthread.h>
#include <string.h>
#include <unistd.h>
#include <stdlib.h>
#include <sys/syscall.h>
#include <linux/futex.h>

#define MAXT SCHED_MAXT
enum { TS_UNUSED = 0, TS_RUNNABLE, TS_FINISHED };
enum { W_NONE = 0, W_RD, W_WR, W_MX };
struct sthread { volatile int state; volatile int go; void *volatile want; volatile int want_mode; };
struct lockm { void *addr; int writer; int readers[MAXT]; };

static struct sthread T[MAXT];
static volatile int go_main;
static struct lockm L[16];
static int NT;
static volatile int active;
static struct sched_trace *TR;
static const unsigned char *PFX; static int NPFX;
static __thread int my_tid = -1;
static volatile int current = -1;

static void fwait(volatile int *w) { while (!__atomic_load_n(w, __ATOMIC_ACQUIRE)) syscall(SYS_futex, w, FUTEX_WAIT, 0, NULL, NULL, 0); __atomic_store_n(w, 0, __ATOMIC_RELEASE); }
static void fwake(volatile int *w) { __atomic_store_n(w, 1, __ATOMIC_RELEASE); syscall(SYS_futex, w, FUTEX_WAKE, 1, NULL, NULL, 0); }

static struct lockm *lock_of(void *a)
{
    for (int i = 0; i < 16; i++) if (L[i].addr == a) return &L[i];
    for (int i = 0; i < 16; i++) if (!L[i].addr) { L[i].addr = a; return &L[i]; }
    _exit(72);
}
static int available(struct lockm *l, int mode, int tid)
{
    if (mode == W_RD) return l->writer == 0;
    int rd = 0; for (int i = 0; i < MAXT; i++) if (i != tid) rd += l->readers[i];
    return l->writer == 0 && rd == 0;
}
static int enabled(int t)
{
    if (T[t].state != TS_RUNNABLE) return 0;
    if (T[t].want_mode == W_NONE) return 1;
    return available(lock_of(T[t].want), T[t].want_mode, t);
}

void sched_init(struct sched_trace *tr, const unsigned char *prefix, int nprefix, int nthreads)
{
    memset(T, 0, sizeof T); memset(L, 0, sizeof L);
    TR = tr; PFX = prefix; NPFX = nprefix; NT = nthreads; go_main = 0; current = -1;
    tr->npoints = 0; tr->deadlock = 0; tr->diverged = 0; tr->overflow = 0; tr->switches = 0;
    for (int i = 0; i < nthreads; i++) T[i].state = TS_RUNNABLE;
    active = 1;
}
int sched_is_active(void) { return active && my_tid >= 0; }

/* one scheduling decision taken by the running thread `me` (or -1 for the main thread at start) */
static void reschedule(int me, int kind)
{
    int en[MAXT], nen = 0, cur_en = 0;
    if (me >= 0 && enabled(me)) { en[nen++] = me; cur_en = 1; }
    for (int t = 0; t < NT; t++) if (t != me && enabled(t)) en[nen++] = t;
    if (nen == 0) {
        int unfinished = 0; for (int t = 0; t < NT; t++) if (T[t].state == TS_RUNNABLE) unfinished++;
        if (unfinished) { TR->deadlock = 1; _exit(70); }       /* nobody can run: deadlock */
        active = 0; current = -1; fwake(&go_main);
        return;
    }
    int step = TR->npoints, idx = 0;
    if (step < NPFX) { idx = PFX[step]; if (idx >= nen) { TR->diverged = 1; _exit(71); } }
    if (step < SCHED_MAXPOINTS) { TR->pt[step].nen = (unsigned char)nen; TR->pt[step].cur_en = (unsigned char)cur_en; TR->pt[step].chosen = (unsigned char)idx; TR->pt[step].kind = (unsigned char)kind; TR->pt[step].tid = (signed char)me; TR->npoints = step + 1; }
    else { TR->overflow = 1; _exit(73); }
    int next = en[idx];
    if (next != me) {
        if (cur_en) TR->switches++;
        current = next;
        fwake(&T[next].go);
        if (me >= 0 && T[me].state == TS_RUNNABLE) fwait(&T[me].go);
    }
}

void sched_thread_begin(int tid) { my_tid = tid; fwait(&T[tid].go); }
void sched_thread_end(int tid) { T[tid].state = TS_FINISHED; T[tid].want_mode = W_NONE; reschedule(tid, SK_END); my_tid = -1; }
void sched_run_all(void) { reschedule(-1, SK_START); fwait(&go_main); }

void liberasurecode_verif_yield(int point) { if (!sched_is_active()) return; reschedule(my_tid, point); }
void sched_yield_point(int point) { liberasurecode_verif_yield(point); }

static void acquire(void *lock, int mode)
{
    int me = my_tid;
    T[me].want = lock; T[me].want_mode = mode;
    reschedule(me, mode == W_RD ? SK_RDLOCK : mode == W_WR ? SK_WRLOCK : SK_MUTEX);
    struct lockm *l = lock_of(lock);
    if (!available(l, mode, me)) _exit(74);          /* scheduler bug: resumed without the lock being free */
    if (mode == W_RD) l->readers[me]++; else l->writer = me + 1;
    T[me].want = NULL; T[me].want_mode = W_NONE;
}
static void release(void *lock)
{
    int me = my_tid; struct lockm *l = lock_of(lock);
    if (l->writer == me + 1) l->writer = 0; else if (l->readers[me] > 0) l->readers[me]--;
}

/* ---- the pthread lock entry points the library really calls are interposed here (this executable precedes every
 * shared object in symbol lookup), so whatever erasurecode_stdinc.h maps the library's lock names to is what gets
 * modelled: a write lock mapped to a read lock admits two "writers", a try-lock never waits and fails when the lock
 * is held.  The real operation is always performed too, through the next definition in lookup order (the sanitizer
 * runtime's interceptor, then libc), so ThreadSanitizer sees the true synchronisation and nothing else. */
#include <dlfcn.h>
#include <errno.h>
typedef int (*lockfn)(void *);
static lockfn real_rd, real_wr, real_tryrd, real_trywr, real_rwun, real_mx, real_mxtry, real_mxun;
static lockfn next_of(lockfn *slot, const char *name)
{
    lockfn f = __atomic_load_n(slot, __ATOMIC_ACQUIRE);
    if (!f) { f = (lockfn)dlsym(RTLD_NEXT, name); if (!f) _exit(75); __atomic_store_n(slot, f, __ATOMIC_RELEASE); }
    return f;
}
void sched_resolve_locks(void)
{
    next_of(&real_rd, "pthread_rwlock_rdlock"); next_of(&real_wr, "pthread_rwlock_wrlock"); next_of(&real_tryrd, "pthread_rwlock_tryrdlock");
    next_of(&real_trywr, "pthread_rwlock_trywrlock"); next_of(&real_rwun, "pthread_rwlock_unlock");
    next_of(&real_mx, "pthread_mutex_lock"); next_of(&real_mxtry, "pthread_mutex_trylock"); next_of(&real_mxun, "pthread_mutex_unlock");
}
/* a try operation: one scheduling point, then success exactly if the modelled lock is free */
static int try_acquire(void *lock, int mode)
{
    int me = my_tid;
    reschedule(me, mode == W_RD ? SK_RDLOCK : mode == W_WR ? SK_WRLOCK : SK_MUTEX);
    struct lockm *l = lock_of(lock);
    if (!available(l, mode, me)) return 0;
    if (mode == W_RD) l->readers[me]++; else l->writer = me + 1;
    return 1;
}
int pthread_rwlock_rdlock(pthread_rwlock_t *lock) { if (sched_is_active()) acquire(lock, W_RD); return next_of(&real_rd, "pthread_rwlock_rdlock")(lock); }
int pthread_rwlock_wrlock(pthread_rwlock_t *lock) { if (sched_is_active()) acquire(lock, W_WR); return next_of(&real_wr, "pthread_rwlock_wrlock")(lock); }
int pthread_rwlock_tryrdlock(pthread_rwlock_t *lock)
{
    if (sched_is_active() && !try_acquire(lock, W_RD)) return EBUSY;
    return next_of(&real_tryrd, "pthread_rwlock_tryrdlock")(lock);
}
int pthread_rwlock_trywrlock(pthread_rwlock_t *lock)
{
    if (sched_is_active() && !try_acquire(lock, W_WR)) return EBUSY;
    return next_of(&real_trywr, "pthread_rwlock_trywrlock")(lock);
}
int pthread_rwlock_unlock(pthread_rwlock_t *lock)
{
    int rc = next_of(&real_rwun, "pthread_rwlock_unlock")(lock);
    if (sched_is_active()) { release(lock); reschedule(my_tid, SK_UNLOCK); }
    return rc;
}
int pthread_mutex_lock(pthread_mutex_t *lock) { if (sched_is_active()) acquire(lock, W_MX); return next_of(&real_mx, "pthread_mutex_lock")(lock); }
int pthread_mutex_trylock(pthread_mutex_t *lock)
{
    if (sched_is_active() && !try_acquire(lock, W_MX)) return EBUSY;
    return next_of(&real_mxtry, "pthread_mutex_trylock")(lock);
}
int pthread_mutex_unlock(pthread_mutex_t *lock)
{
    int rc = next_of(&real_mxun, "pthread_mutex_unlock")(lock);
    if (sched_is_active()) { release(lock); reschedule(my_tid, SK_UNLOCK); }
    return rc;
}
