/* Engine F — fragment / header mutation explorer (DESIGN.md 3.F).
 * Every mutant of an explicit finite alphabet is shown to the real consumers and
 * the verdicts are compared with reference predicates evaluated on the raw bytes. */
#include "stripe.h"
#include <limits.h>

extern int liberasurecode_crc32_alt(int crc, const void *buf, size_t size);
extern int is_invalid_fragment_header(fragment_header_t *header);

#define EBADHDR (-207)

static const struct shape COVER[] = {
    { EC_BACKEND_LIBERASURECODE_RS_VAND, 1, 1, 1 }, { EC_BACKEND_LIBERASURECODE_RS_VAND, 4, 2, 2 },
    { EC_BACKEND_FLAT_XOR_HD, 3, 3, 3 }, { EC_BACKEND_ISA_L_RS_VAND, 4, 2, 2 },
    { EC_BACKEND_LIBERASURECODE_RS_VAND, 10, 4, 4 }, { EC_BACKEND_FLAT_XOR_HD, 10, 5, 3 },
    { EC_BACKEND_ISA_L_RS_CAUCHY, 4, 2, 2 }, { EC_BACKEND_FLAT_XOR_HD, 12, 6, 4 },
    { EC_BACKEND_LIBERASURECODE_RS_VAND, 16, 16, 16 }, { EC_BACKEND_NULL, 2, 1, 1 },
    /* thorough tier only (entries 10..) */
    { EC_BACKEND_LIBERASURECODE_RS_VAND, 2, 1, 1 }, { EC_BACKEND_LIBERASURECODE_RS_VAND, 3, 3, 3 }, { EC_BACKEND_LIBERASURECODE_RS_VAND, 1, 31, 31 },
    { EC_BACKEND_LIBERASURECODE_RS_VAND, 31, 1, 1 }, { EC_BACKEND_LIBERASURECODE_RS_VAND, 20, 12, 12 }, { EC_BACKEND_LIBERASURECODE_RS_VAND, 5, 3, 3 },
    { EC_BACKEND_FLAT_XOR_HD, 5, 5, 3 }, { EC_BACKEND_FLAT_XOR_HD, 6, 6, 4 }, { EC_BACKEND_FLAT_XOR_HD, 20, 6, 4 }, { EC_BACKEND_FLAT_XOR_HD, 15, 6, 3 },
    { EC_BACKEND_ISA_L_RS_VAND, 10, 4, 4 }, { EC_BACKEND_ISA_L_RS_CAUCHY, 3, 3, 3 },
};
#define NCOVER (strcmp(vh_tier(), "thorough") ? 10 : (int)(sizeof COVER / sizeof COVER[0]))
static const char *ENVS[] = { NULL, "1", "", "0", "yes" };

/* one reusable read-only slot for the mutant under test, plus one for a second damaged fragment */
static gbuf_t slot[3];
static uint8_t *slot_put(int i, const uint8_t *bytes, size_t len)
{
    if (!slot[i].map) gbuf_alloc(&slot[i], 1u << 16, GP_END);
    gbuf_writable(&slot[i]);
    uint8_t *p = slot[i].p + slot[i].len - len;
    memcpy(p, bytes, len);
    gbuf_readonly(&slot[i]);
    return p;
}

/* ---------------------------------------------------------------- sealing */
enum { SEAL_STALE, SEAL_STD, SEAL_LEGACY, SEAL_STDSWAP, SEAL_PLUS1, NSEAL };
static const char *seal_name[NSEAL] = { "stale", "std", "legacy", "stdswap", "plus1" };
static void seal(uint8_t *h, int mode, int big_endian_writer)
{
    if (mode == SEAL_STALE) return;
    uint32_t c = mode == SEAL_LEGACY ? crc_legacy(h, 59) : crc_std(h, 59);
    if (mode == SEAL_PLUS1) c += 1;
    int be = big_endian_writer;
    if (mode == SEAL_STDSWAP) be = !be;
    if (be) { h[67] = c >> 24; h[68] = c >> 16; h[69] = c >> 8; h[70] = c; }
    else put_le32(h + 67, c);
}
static void twin_raw(uint8_t *h)      /* reverse every multi-byte field, stored checksum included, no recomputation */
{
    static const int f4[] = { 0, 4, 8, 55, 59, 63, 67 };
    for (int i = 0; i < 7; i++) { uint8_t *p = h + f4[i]; uint8_t t = p[0]; p[0] = p[3]; p[3] = t; t = p[1]; p[1] = p[2]; p[2] = t; }
    for (int i = 0; i < 8; i++) { uint8_t *p = h + 21 + 4 * i; uint8_t t = p[0]; p[0] = p[3]; p[3] = t; t = p[1]; p[1] = p[2]; p[2] = t; }
    for (int i = 0; i < 4; i++) { uint8_t t = h[12 + i]; h[12 + i] = h[19 - i]; h[19 - i] = t; }
}

/* logical (size, backend-metadata size, original length) of a header in its own byte order */
static void logical_sizes(const uint8_t *h, uint32_t *size, uint32_t *bm, uint64_t *orig)
{
    struct wire_fields f;
    if (ref_host_order(h)) wire_get(h, &f); else wire_get_swapped(h, &f);
    *size = f.size; *bm = f.bmsize; *orig = f.orig;
}

/* ---------------------------------------------------------------- C09 consumers */
struct c09ctx { struct stripe *s; int fi; const uint8_t *base; uint8_t *work; };

static void c09_mutant(struct c09ctx *c, const char *desc_fmt, ...)
{
    char name[160]; va_list ap; va_start(ap, desc_fmt); vsnprintf(name, sizeof name, desc_fmt, ap); va_end(ap);
    if (!vh_case_begin("f%d/%s", c->fi, name)) return;
    struct stripe *s = c->s; int n = s->n, k = s->sh.k;
    const uint8_t *h = c->work;
    int differs = memcmp(h, c->base, WIRE_HDR) != 0;
    int acc = ref_hdr_ok(h), host = ref_host_order(h);
    if (differs) vh_nontrivial();
    uint8_t *m = slot_put(0, c->work, s->flen);
    /* exported header predicate: every mutant */
    vh_op("is_invalid_fragment_header"); vh_transitions(1);
    int inv = is_invalid_fragment_header((fragment_header_t *)m);
    if ((inv != 0) != !acc) vh_violation(acc ? "valid-header-rejected" : "invalid-header-accepted", "%s: header predicate says %d, reference says %s", name, inv, acc ? "accept" : "reject");
    /* forged-but-accepted lengths are shown to the header predicate only (no property says what the others must do) */
    uint32_t sz, bm, sz0, bm0; uint64_t og, og0;
    logical_sizes(h, &sz, &bm, &og); logical_sizes(c->base, &sz0, &bm0, &og0);
    if (acc && (sz != sz0 || bm != bm0 || og != og0)) { vh_count("forged_length_mutants_header_only", 1); return; }
    fragment_metadata_t md;
    vh_op("liberasurecode_get_fragment_metadata"); vh_transitions(1);
    int rc = liberasurecode_get_fragment_metadata((char *)m, &md);
    if (acc && rc != 0) vh_violation("valid-header-rejected", "%s: metadata query returned %d for a header the reference accepts", name, rc);
    if (!acc && rc != EBADHDR) vh_violation("invalid-header-accepted", "%s: metadata query returned %d, expected the bad-header error", name, rc);
    /* decode, in four list layouts: the mutant first / last among the other fragments of the stripe; and as a SURPLUS entry after a
     * complete pristine stripe, and after two copies of it (more than k+m entries). Whatever the position, a header that must be
     * rejected makes decode fail with the bad-header error: validation precedes every use, also of fragments decode does not need. */
    int idx_same = !memcmp(h, c->base, 4);
    for (int lay = 0; lay < 4; lay++) {
        int want = lay == 3 ? 2 * n + 1 : lay == 2 ? n + 1 : n;
        if (want > 64) continue;
        if (lay >= 2 && acc && host) continue;                   /* accepted surplus entries: nothing to demand */
        char **arr = (char **)(s->gptr.p + s->gptr.len) - want; int nf = 0;
        if (lay == 0) arr[nf++] = (char *)m;
        for (int rep = 0; rep < (lay == 3 ? 2 : 1); rep++) for (int i = 0; i < n; i++) if (lay >= 2 || i != c->fi) arr[nf++] = (char *)frag_at(s, GP_END, i);
        if (lay != 0) arr[nf++] = (char *)m;
        { char opn[96]; snprintf(opn, sizeof opn, "liberasurecode_decode:%s", be_name(s->sh.be)); vh_op(opn); }
        char *out = NULL; uint64_t outlen = 0; vh_transitions(1);
        rc = liberasurecode_decode(s->desc, arr, nf, s->flen, 0, &out, &outlen);
        static const char *ln[] = { "first in the list", "last in the list", "as a surplus entry after the complete stripe", "as entry 2(k+m)+1" };
        if (!(acc && host) && rc != EBADHDR) vh_violation("invalid-header-accepted", "%s: decode returned %d for a header that is %s (placed %s), expected the bad-header error", name, rc, acc ? "not in host byte order" : "invalid", ln[lay]);
        if (acc && host && idx_same && rc == EBADHDR) vh_violation("valid-header-rejected", "%s: decode returned the bad-header error for an acceptable host-order header", name);
        if (acc && host && idx_same && !differs && rc != 0) vh_violation("valid-header-rejected", "%s: decode of the pristine stripe returned %d", name, rc);
        if (out && ledger_has(out)) liberasurecode_decode_cleanup(s->desc, out);
    }
    /* reconstruct: mutant (first / last) + others except one, rebuild that one */
    if (n >= 2) for (int lay = 0; lay < 2; lay++) {
        int d = (c->fi + 1) % n, nf = 0;
        char **arr = (char **)(s->gptr.p + s->gptr.len) - n;
        if (lay == 0) arr[nf++] = (char *)m;
        for (int i = 0; i < n; i++) if (i != c->fi && i != d) arr[nf++] = (char *)frag_at(s, GP_END, i);
        if (lay == 1) arr[nf++] = (char *)m;
        uint8_t *ob = s->gout.p + s->gout.len - s->flen;
        { char opn[96]; snprintf(opn, sizeof opn, "liberasurecode_reconstruct_fragment:%s", be_name(s->sh.be)); vh_op(opn); }
        vh_transitions(1);
        rc = liberasurecode_reconstruct_fragment(s->desc, arr, nf, s->flen, d, (char *)ob);
        if (!(acc && host) && rc != EBADHDR) vh_violation("invalid-header-accepted", "%s: reconstruct returned %d for a header that is %s (placed %s), expected the bad-header error", name, rc, acc ? "not in host byte order" : "invalid", lay ? "last" : "first");
        if (acc && host && idx_same && rc == EBADHDR) vh_violation("valid-header-rejected", "%s: reconstruct returned the bad-header error for an acceptable host-order header", name);
    }
    (void)k;
}

static void c09_base(struct stripe *s, int fi, int thorough)
{
    struct c09ctx c = { s, fi, (uint8_t *)enc_frag(s, fi), malloc(s->flen) };
#define RESET() memcpy(c.work, c.base, s->flen)
    uint32_t LIB = liberasurecode_get_version();
    RESET(); c09_mutant(&c, "pristine");
    /* every single-bit flip of the 80 header bytes x sealing */
    for (int bit = 0; bit < 640; bit++) for (int sl = 0; sl < NSEAL; sl++) {
        if (bit >= 71 * 8 && sl != SEAL_STALE) continue;         /* padding bits are not covered by the CRC: once is enough */
        RESET(); c.work[bit >> 3] ^= (uint8_t)(1u << (bit & 7)); seal(c.work, sl, 0);
        c09_mutant(&c, "bit%d/%s", bit, seal_name[sl]);
    }
    /* every byte of 0..70 set to four values x {stale, resealed} */
    for (int b = 0; b <= 70; b++) for (int v = 0; v < 4; v++) for (int sl = 0; sl < 2; sl++) {
        RESET(); uint8_t old = c.work[b], nv = v == 0 ? 0x00 : v == 1 ? 0xff : v == 2 ? (uint8_t)(old ^ 0x80) : (uint8_t)(old + 1);
        if (nv == old) continue;
        c.work[b] = nv; seal(c.work, sl, 0);
        c09_mutant(&c, "byte%d=%02x/%s", b, nv, seal_name[sl]);
    }
    /* writer-version and magic rewrites */
    uint32_t vers[] = { 0, 1, 0x010100, 0x0101ff, 0x010200, LIB - 1, LIB, LIB + 1, 0xffffffffu };
    for (int vi = 0; vi < 9; vi++) for (int sl = 0; sl < 3; sl++) {
        RESET(); put_le32(c.work + 63, vers[vi]); seal(c.work, sl, 0);
        c09_mutant(&c, "ver=%08x/%s", vers[vi], seal_name[sl]);
    }
    uint32_t mags[] = { WIRE_MAGIC, bswap32_ref(WIRE_MAGIC), 0, WIRE_MAGIC ^ 1 };
    for (int mi = 0; mi < 4; mi++) for (int sl = 0; sl < 3; sl++) {
        RESET(); put_le32(c.work + 59, mags[mi]); seal(c.work, sl, 0);
        c09_mutant(&c, "magic=%08x/%s", mags[mi], seal_name[sl]);
    }
    /* whole-header byte-order twin: sealed by the foreign writer, stale, legacy, wrong-order checksum; and version edits on it */
    for (int sl = 0; sl < NSEAL; sl++) {
        RESET(); twin_raw(c.work); seal(c.work, sl, 1);
        c09_mutant(&c, "twin/%s", seal_name[sl]);
    }
    for (int vi = 0; vi < 9; vi++) for (int sl = 0; sl < 3; sl++) {
        RESET(); twin_raw(c.work); c.work[63] = vers[vi] >> 24; c.work[64] = vers[vi] >> 16; c.work[65] = vers[vi] >> 8; c.work[66] = vers[vi]; seal(c.work, sl, 1);
        c09_mutant(&c, "twin+ver=%08x/%s", vers[vi], seal_name[sl]);
    }
    for (int bit = 0; bit < 71 * 8; bit += thorough ? 1 : 5) for (int sl = 0; sl < 2; sl++) {
        RESET(); twin_raw(c.work); c.work[bit >> 3] ^= (uint8_t)(1u << (bit & 7)); seal(c.work, sl, 1);
        c09_mutant(&c, "twin+bit%d/%s", bit, seal_name[sl]);
    }
    /* thorough: every 2-bit flip inside bytes 0..70, unsealed (CRC-32 must catch all of them) and resealed */
    if (thorough && fi == 0)
        for (int b1 = 0; b1 < 71 * 8; b1++) for (int b2 = b1 + 1; b2 < 71 * 8; b2++) {
            RESET(); c.work[b1 >> 3] ^= (uint8_t)(1u << (b1 & 7)); c.work[b2 >> 3] ^= (uint8_t)(1u << (b2 & 7));
            c09_mutant(&c, "bits%d+%d/stale", b1, b2);
        }
    free(c.work);
}

static void plan_c09(void)
{
    int thorough = !strcmp(vh_tier(), "thorough");
    uint64_t lens[] = { 37, 0, 1 };
    for (int ci = 0; ci < NCOVER; ci++) for (int ct = CHKSUM_NONE; ct <= CHKSUM_CRC32; ct++) for (int e = 0; e < (thorough ? 5 : 2); e++) for (int li = 0; li < 3; li++) {
        struct shape sh = COVER[ci];
        if (sh.be == EC_BACKEND_NULL && (li || e)) continue;
        if (!thorough && li && ct == CHKSUM_NONE && e) continue;
        int n = sh.k + sh.m;
        int fis[4] = { 0, sh.k - 1, sh.k, n - 1 }; int nfi = 0, fl[32];
        if (thorough && n <= 6) { for (int i = 0; i < n; i++) fl[nfi++] = i; }
        else for (int i = 0; i < 4; i++) { int d = 0; for (int j = 0; j < nfi; j++) if (fl[j] == fis[i]) d = 1; if (!d) fl[nfi++] = fis[i]; }
        if (!thorough && (li || e)) nfi = nfi > 2 ? 2 : nfi;    /* quick: secondary lengths/env take two base fragments */
        for (int q = 0; q < nfi; q++) {
            if (!vh_group_begin("F/C09/%s/k%dm%dhd%d/ct%d/len%lu/env%s/f%d", be_name(sh.be), sh.k, sh.m, sh.hd, ct, (unsigned long)lens[li], ENVS[e] ? ENVS[e] : "-", fl[q])) continue;
            struct stripe s;
            if (stripe_open(&s, sh, ct, lens[li], PAT_RAMP, ENVS[e]) == 0) c09_base(&s, fl[q], thorough);
            stripe_close(&s, 0);
            vh_group_end();
        }
    }
}

/* ---------------------------------------------------------------- C10 */
static uint32_t stored_crc(const uint8_t *f) { return le32(f + 21); }
static const char *c10_env_now;      /* value of the legacy switch at the time of the writing call (NULL = unset) */
static int c10_env_override;
static void c10_check_written(struct stripe *s, const uint8_t *f, int idx, const char *what)
{
    uint32_t size = le32(f + 4);
    const char *env = c10_env_override ? c10_env_now : s->env;
    int legacy = env_is_legacy(env);
    uint32_t want = legacy ? crc_legacy(f + WIRE_HDR, size) : crc_std(f + WIRE_HDR, size);
    /* the metadata checksum follows the same switch */
    uint32_t mwant = legacy ? crc_legacy(f, 59) : crc_std(f, 59);
    if (le32(f + 67) != mwant) vh_violation("wrong-checksum-written", "%s fragment %d: metadata checksum 0x%08x, %s CRC-32 of the 59 metadata bytes is 0x%08x", what, idx, le32(f + 67), legacy ? "historical" : "standard", mwant);
    if (f[20] != CHKSUM_CRC32) vh_violation("checksum-type-not-written", "%s fragment %d: checksum type byte is %d", what, idx, f[20]);
    else if (stored_crc(f) != want) vh_violation("wrong-checksum-written", "%s fragment %d: stored 0x%08x, %s CRC-32 of the payload is 0x%08x", what, idx, stored_crc(f), legacy ? "historical" : "standard", want);
    if (f[53] != 0) vh_violation("mismatch-flag-written", "%s fragment %d: mismatch flag byte is %d", what, idx, f[53]);
}
static int c10_alt_desc;
static void c10_verdict(struct stripe *s, uint8_t *m, const char *name)
{
    int want = ref_mismatch(m, s->flen);
    fragment_metadata_t md; memset(&md, 0xA7, sizeof md);
    vh_op("liberasurecode_get_fragment_metadata"); vh_transitions(2);
    int rc = liberasurecode_get_fragment_metadata((char *)m, &md);
    /* read the flag at its wire offset, not through the struct */
    int got = ((uint8_t *)&md)[53];
    if (rc != 0) vh_violation("metadata-query-failed", "%s: rc=%d", name, rc);
    else if (got != want) vh_violation(want ? "mismatch-not-reported" : "false-mismatch", "%s: metadata query reports mismatch=%d, reference says %d", name, got, want);
    vh_op("is_invalid_fragment");
    int inv = is_invalid_fragment(s->desc, (char *)m);
    if ((inv != 0) != (want != 0)) vh_violation(want ? "damaged-fragment-validated" : "intact-fragment-rejected", "%s: is_invalid_fragment=%d, payload checksum mismatch per reference=%d", name, inv, want);
    /* the verdict is a property of the fragment, not of the checksum type the validating instance happens to write */
    if (c10_alt_desc > 0) {
        vh_transitions(1);
        inv = is_invalid_fragment(c10_alt_desc, (char *)m);
        if ((inv != 0) != (want != 0)) vh_violation(want ? "damaged-fragment-validated" : "intact-fragment-rejected", "%s: an instance of the same shape created with checksum type NONE says is_invalid_fragment=%d, payload checksum mismatch per reference=%d", name, inv, want);
    }
}
/* "on any reader": the same fragment as an opposite-endian writer would have laid it out must get the same mismatch verdict */
static void c10_twin_verdict(struct stripe *s, const uint8_t *w, const char *name)
{
    uint8_t *t = malloc(s->flen); memcpy(t, w, s->flen); wire_byteswap_twin(t);
    int want = ref_mismatch(t, s->flen);
    uint8_t *m = slot_put(1, t, s->flen);
    fragment_metadata_t md; memset(&md, 0, sizeof md);
    vh_op("liberasurecode_get_fragment_metadata"); vh_transitions(1);
    int rc = liberasurecode_get_fragment_metadata((char *)m, &md);
    int got = ((uint8_t *)&md)[53];
    if (rc != 0) vh_violation("metadata-query-failed", "%s (opposite-endian twin): rc=%d", name, rc);
    else if (want >= 0 && got != want) vh_violation(want ? "mismatch-not-reported" : "false-mismatch", "%s (opposite-endian twin): metadata query reports mismatch=%d, reference says %d", name, got, want);
    free(t);
}
static void plan_c10(void)
{
    int thorough = !strcmp(vh_tier(), "thorough");
    /* (a) the historical CRC bit-exactly */
    if (vh_group_begin("F/C10/crc-alt/len0-2")) {
        uint8_t b[2];
        if (vh_case_begin("len0")) { vh_nontrivial(); vh_transitions(1); if ((uint32_t)liberasurecode_crc32_alt(0, b, 0) != crc_legacy(b, 0)) vh_violation("legacy-crc", "empty buffer"); }
        for (int x = 0; x < 256; x++) {
            if (!vh_case_begin("b%02x", x)) continue;
            vh_nontrivial(); vh_op("liberasurecode_crc32_alt"); vh_transitions(257);
            b[0] = (uint8_t)x;
            if ((uint32_t)liberasurecode_crc32_alt(0, b, 1) != crc_legacy(b, 1)) vh_violation("legacy-crc", "1-byte buffer %02x: got %08x want %08x", x, liberasurecode_crc32_alt(0, b, 1), crc_legacy(b, 1));
            for (int y = 0; y < 256; y++) { b[1] = (uint8_t)y; if ((uint32_t)liberasurecode_crc32_alt(0, b, 2) != crc_legacy(b, 2)) { vh_violation("legacy-crc", "2-byte buffer %02x %02x: got %08x want %08x", x, y, liberasurecode_crc32_alt(0, b, 2), crc_legacy(b, 2)); break; } }
        }
        vh_group_end();
    }
    if (vh_group_begin("F/C10/crc-alt/59-byte-single-nonzero")) {
        uint8_t b[59];
        for (int pos = 0; pos < 59; pos++) {
            if (!vh_case_begin("pos%d", pos)) continue;
            vh_nontrivial(); vh_op("liberasurecode_crc32_alt"); vh_transitions(255);
            for (int v = 1; v < 256; v++) { memset(b, 0, 59); b[pos] = (uint8_t)v; if ((uint32_t)liberasurecode_crc32_alt(0, b, 59) != crc_legacy(b, 59)) { vh_violation("legacy-crc", "59-byte buffer with byte %d = %02x", pos, v); break; } }
        }
        vh_group_end();
    }
    if (vh_group_begin("F/C10/crc-alt/patterns")) {
        uint8_t b[4096];
        for (int pat = 0; pat < PAT_N; pat++) for (int n = 0; n <= (thorough ? 4096 : 300); n++) {
            if (!vh_case_begin("%s/len%d", vh_pat_name[pat], n)) continue;
            vh_nontrivial(); vh_op("liberasurecode_crc32_alt"); vh_transitions(1);
            vh_fill(b, (size_t)n, pat);
            if ((uint32_t)liberasurecode_crc32_alt(0, b, (size_t)n) != crc_legacy(b, (size_t)n)) vh_violation("legacy-crc", "%s buffer of %d bytes", vh_pat_name[pat], n);
        }
        vh_group_end();
    }
    /* (b) writers and readers */
    /* the switch governs the header seal of EVERY fragment a writer emits, whatever payload checksum type the instance uses */
    for (int ci = 0; ci < NCOVER; ci++) for (int ct = CHKSUM_NONE; ct <= CHKSUM_MD5; ct++) for (int e = 0; e < 5; e++) {
        struct shape sh = COVER[ci];
        if (ct == CHKSUM_CRC32) continue;                       /* the main loop below */
        if (!thorough && ci >= 5 && e >= 2) continue;
        if (!vh_group_begin("F/C10/seal/%s/k%dm%dhd%d/ct%d/env%s", be_name(sh.be), sh.k, sh.m, sh.hd, ct, ENVS[e] ? ENVS[e] : "-")) continue;
        struct stripe s;
        if (stripe_open(&s, sh, ct, 37, PAT_RAMP, ENVS[e]) == 0) {
            int n = s.n, legacy = env_is_legacy(ENVS[e]);
            for (int d = -1; d < n; d++) {
                if (d >= 0 && !(d == 0 || d == sh.k || d == n - 1)) continue;
                if (d >= 0 && sh.be == EC_BACKEND_NULL) continue;
                if (!vh_case_begin(d < 0 ? "written-by-encode" : "written-by-reconstruct/dst%d", d)) continue;
                vh_nontrivial();
                for (int i = (d < 0 ? 0 : d); i < (d < 0 ? n : d + 1); i++) {
                    const uint8_t *f = (const uint8_t *)enc_frag(&s, i);
                    if (d >= 0) {
                        char **arr = (char **)(s.gptr.p + s.gptr.len) - n; int nf = 0;
                        for (int j = 0; j < n; j++) if (j != d) arr[nf++] = (char *)frag_at(&s, GP_END, j);
                        uint8_t *ob = s.gout.p + s.gout.len - s.flen;
                        vh_op("liberasurecode_reconstruct_fragment"); vh_transitions(1);
                        int rc = liberasurecode_reconstruct_fragment(s.desc, arr, nf, s.flen, d, (char *)ob);
                        if (rc != 0) { vh_violation("reconstruct-failed", "dest %d rc=%d", d, rc); continue; }
                        f = ob;
                    }
                    uint32_t mwant = legacy ? crc_legacy(f, 59) : crc_std(f, 59);
                    if (le32(f + 67) != mwant) vh_violation("wrong-checksum-written", "%s fragment %d (checksum type %d): metadata checksum 0x%08x, %s CRC-32 of the 59 metadata bytes is 0x%08x",
                                                            d < 0 ? "encoded" : "reconstructed", i, ct, le32(f + 67), legacy ? "historical" : "standard", mwant);
                    if (f[53] != 0) vh_violation("mismatch-flag-written", "fragment %d: mismatch flag byte is %d", i, f[53]);
                }
            }
        }
        stripe_close(&s, 0);
        vh_group_end();
    }
    for (int ci = 0; ci < NCOVER; ci++) {
        struct shape sh = COVER[ci];
        if (sh.be == EC_BACKEND_NULL) continue;
        uint64_t a = (uint64_t)sh.k * word_bytes(sh.be);
        uint64_t lens[] = { 2 * a + 3, 1, 37, 16 * a, 1000 };
        for (int e = 0; e < 5; e++) for (int li = 0; li < (thorough ? 5 : 3); li++) {
            if (!thorough && e >= 2 && li) continue;
            if (!vh_group_begin("F/C10/%s/k%dm%dhd%d/len%lu/env%s", be_name(sh.be), sh.k, sh.m, sh.hd, (unsigned long)lens[li], ENVS[e] ? ENVS[e] : "-")) continue;
            struct stripe s;
            if (stripe_open(&s, sh, CHKSUM_CRC32, lens[li], PAT_RAMP, ENVS[e]) == 0) {
                int n = s.n; uint32_t bs = (uint32_t)(s.flen - WIRE_HDR);
                c10_alt_desc = create_instance(&sh, CHKSUM_NONE);
                if (vh_case_begin("written-by-encode")) { vh_nontrivial(); for (int i = 0; i < n; i++) c10_check_written(&s, (uint8_t *)enc_frag(&s, i), i, "encoded"); }
                for (int d = 0; d < n; d++) {
                    if (!vh_case_begin("written-by-reconstruct/dst%d", d)) continue;
                    vh_nontrivial();
                    char **arr = (char **)(s.gptr.p + s.gptr.len) - n; int nf = 0;
                    for (int i = 0; i < n; i++) if (i != d) arr[nf++] = (char *)frag_at(&s, GP_END, i);
                    uint8_t *ob = s.gout.p + s.gout.len - s.flen;
                    { char opn[96]; snprintf(opn, sizeof opn, "liberasurecode_reconstruct_fragment:%s", be_name(sh.be)); vh_op(opn); } vh_transitions(1);
                    int rc = liberasurecode_reconstruct_fragment(s.desc, arr, nf, s.flen, d, (char *)ob);
                    if (rc != 0) vh_violation("reconstruct-failed", "dest %d rc=%d", d, rc); else c10_check_written(&s, ob, d, "reconstructed");
                    /* the switch is read when a fragment is WRITTEN: rebuild the same fragment under each other value, after the encode above */
                    if (d == 0 || d == sh.k) for (int e2 = 0; e2 < 5; e2++) {
                        if (e2 == e) continue;
                        set_env(ENVS[e2]); c10_env_now = ENVS[e2]; c10_env_override = 1;
                        vh_transitions(1);
                        rc = liberasurecode_reconstruct_fragment(s.desc, arr, nf, s.flen, d, (char *)ob);
                        if (rc != 0) vh_violation("reconstruct-failed", "dest %d rc=%d under switch value '%s'", d, rc, ENVS[e2] ? ENVS[e2] : "(unset)");
                        else { char wn[64]; snprintf(wn, sizeof wn, "reconstructed under switch value '%s' (encoded under '%s')", ENVS[e2] ? ENVS[e2] : "(unset)", ENVS[e] ? ENVS[e] : "(unset)"); c10_check_written(&s, ob, d, wn); }
                        c10_env_override = 0; set_env(ENVS[e]);
                    }
                }
                /* readers run with the switch unset as well as set: a legacy-written fragment verifies on any reader */
                /* reader 0 runs under the writer's value of the switch, readers 1..5 under each of the five values: "on any reader" */
                for (int reader = 0; reader < 6; reader++) {
                    set_env(reader ? ENVS[reader - 1] : ENVS[e]);
                    for (int fi = 0; fi < n; fi += (n > 6 ? n - 1 : 1)) {
                        uint8_t *w = malloc(s.flen);
                        memcpy(w, enc_frag(&s, fi), s.flen);
                        if (vh_case_begin("reader%d/f%d/intact", reader, fi)) { vh_nontrivial(); c10_verdict(&s, slot_put(0, w, s.flen), "intact"); c10_twin_verdict(&s, w, "intact"); }
                        /* payload damage */
                        for (uint32_t bit = 0; bit < bs * 8; bit++) {
                            uint32_t byte = bit >> 3;
                            if (bs > 64 && !(byte < 8 || byte >= bs - 8 || (bit & 7) == (byte >> 6 & 7) ) ) continue;
                            if (bs > 64 && byte >= 8 && byte < bs - 8 && (byte & 63) != 17) continue;
                            if (reader && (bit % 3)) continue;
                            if (reader > 1 && (bit % 15)) continue;
                            if (!vh_case_begin("reader%d/f%d/pbit%u", reader, fi, bit)) continue;
                            vh_nontrivial();
                            w[WIRE_HDR + byte] ^= (uint8_t)(1u << (bit & 7));
                            char nm[48]; snprintf(nm, sizeof nm, "payload bit %u", bit);
                            c10_verdict(&s, slot_put(0, w, s.flen), nm);
                            if (bit % 5 == 0) c10_twin_verdict(&s, w, nm);
                            w[WIRE_HDR + byte] ^= (uint8_t)(1u << (bit & 7));
                        }
                        /* stored checksum rewritten (header resealed): to the other CRC flavour (must verify), to crc+1 (must not) */
                        uint32_t alt[3] = { crc_legacy(w + WIRE_HDR, bs), crc_std(w + WIRE_HDR, bs), crc_std(w + WIRE_HDR, bs) + 1 };
                        for (int q = 0; q < 3; q++) {
                            if (!vh_case_begin("reader%d/f%d/stored%d", reader, fi, q)) continue;
                            vh_nontrivial();
                            uint8_t sv[4]; memcpy(sv, w + 21, 4); uint8_t sc[4]; memcpy(sc, w + 67, 4);
                            put_le32(w + 21, alt[q]); wire_seal(w, 0);
                            char nm[48]; snprintf(nm, sizeof nm, "stored checksum variant %d", q);
                            c10_verdict(&s, slot_put(0, w, s.flen), nm);
                            c10_twin_verdict(&s, w, nm);
                            memcpy(w + 21, sv, 4); memcpy(w + 67, sc, 4);
                        }
                        /* fragments of writers older than 1.2.0 (no metadata checksum): payload damage must be reported all the same */
                        if (reader < 2) { static const uint32_t oldv[] = { 0x010000, 0x010009, 0x010100, 0x0101ff };
                          for (int q = 0; q < 4; q++) for (int dmg = 0; dmg < 2; dmg++) {
                            if (!vh_case_begin("reader%d/f%d/writer%06x/%s", reader, fi, oldv[q], dmg ? "damaged" : "intact")) continue;
                            vh_nontrivial();
                            uint8_t sv[4]; memcpy(sv, w + 63, 4); put_le32(w + 63, oldv[q]);
                            if (dmg && bs) w[WIRE_HDR + bs / 2] ^= 0x04;
                            char nm[64]; snprintf(nm, sizeof nm, "writer version %06x, payload %s", oldv[q], dmg ? "damaged" : "intact");
                            c10_verdict(&s, slot_put(0, w, s.flen), nm);
                            if (dmg && bs) w[WIRE_HDR + bs / 2] ^= 0x04;
                            memcpy(w + 63, sv, 4);
                          } }
                        free(w);
                    }
                }
                set_env(ENVS[e]);
                if (c10_alt_desc > 0) liberasurecode_instance_destroy(c10_alt_desc);
                c10_alt_desc = 0;
            }
            stripe_close(&s, 0);
            vh_group_end();
        }
    }
}

/* make the last four bytes of blk[0..n) such that the CRC of the block is `target` (the CRCs are affine over GF(2): solve a 32x32 system) */
static int force_crc(uint8_t *blk, size_t n, uint32_t target, int legacy)
{
    if (n < 4) return -1;
    memset(blk + n - 4, 0, 4);
    uint32_t c0 = legacy ? crc_legacy(blk, n) : crc_std(blk, n), col[32], want = target ^ c0;
    for (int i = 0; i < 32; i++) { blk[n - 4 + (i >> 3)] = (uint8_t)(1u << (i & 7)); col[i] = (legacy ? crc_legacy(blk, n) : crc_std(blk, n)) ^ c0; blk[n - 4 + (i >> 3)] = 0; }
    /* Gaussian elimination over GF(2): rows = output bits, unknowns = 32 input bits */
    uint64_t row[32];                       /* low 32 bits: coefficients, bit 32: right-hand side */
    for (int r = 0; r < 32; r++) { uint64_t v = 0; for (int i = 0; i < 32; i++) if (col[i] >> r & 1) v |= 1ull << i; if (want >> r & 1) v |= 1ull << 32; row[r] = v; }
    int piv_of[32]; for (int i = 0; i < 32; i++) piv_of[i] = -1;
    int rr = 0;
    for (int c = 0; c < 32 && rr < 32; c++) {
        int p2 = -1; for (int r = rr; r < 32; r++) if (row[r] >> c & 1) { p2 = r; break; }
        if (p2 < 0) continue;
        uint64_t t = row[p2]; row[p2] = row[rr]; row[rr] = t;
        for (int r = 0; r < 32; r++) if (r != rr && (row[r] >> c & 1)) row[r] ^= row[rr];
        piv_of[c] = rr++;
    }
    uint32_t x = 0;
    for (int c = 0; c < 32; c++) if (piv_of[c] >= 0 && (row[piv_of[c]] >> 32 & 1)) x |= 1u << c;
    for (int r = rr; r < 32; r++) if (row[r] >> 32 & 1) return -1;
    put_le32(blk + n - 4, x);
    return ((legacy ? crc_legacy(blk, n) : crc_std(blk, n)) == target) ? 0 : -1;
}
/* payloads whose checksum is a "special" value (0, all ones): a stored checksum of 0 is a legal CRC, not "absent" */
static void plan_c10_special(void)
{
    static const struct shape cfgs[] = { { EC_BACKEND_LIBERASURECODE_RS_VAND, 4, 2, 2 }, { EC_BACKEND_FLAT_XOR_HD, 3, 3, 3 }, { EC_BACKEND_ISA_L_RS_VAND, 2, 2, 2 } };
    static const uint32_t targets[] = { 0, 0xffffffffu, 1, 0x80000000u };
    for (int ci = 0; ci < 3; ci++) for (int legacy = 0; legacy < 2; legacy++) for (int ti = 0; ti < 4; ti++) {
        struct shape sh = cfgs[ci]; uint64_t bs = 16, len = (uint64_t)sh.k * bs;
        if (!vh_group_begin("F/C10/special-crc/%s/k%dm%d/%s/%08x", be_name(sh.be), sh.k, sh.m, legacy ? "historical" : "standard", targets[ti])) continue;
        /* craft the input first (block 0 = the payload of data fragment 0), then encode it through a stripe opened on that buffer */
        struct stripe s;
        if (stripe_open(&s, sh, CHKSUM_CRC32, len, PAT_RAMP, legacy ? "1" : NULL) == 0 && s.flen == WIRE_HDR + bs) {
            uint8_t blk[16]; memcpy(blk, s.data, 16);
            if (force_crc(blk, 16, targets[ti], legacy) == 0) {
                gbuf_writable(&s.gdata); memcpy(s.data, blk, 16); gbuf_readonly(&s.gdata);
                char **ed = NULL, **ep = NULL; uint64_t fl = 0; vh_op("liberasurecode_encode"); vh_transitions(1);
                int rc = liberasurecode_encode(s.desc, (char *)s.data, len, &ed, &ep, &fl);
                if (rc != 0 || fl != s.flen) vh_violation("encode-failed", "encode of the crafted buffer returned %d", rc);
                else {
                    uint8_t *w = malloc(fl); memcpy(w, ed[0], fl);
                    if (vh_case_begin("written")) { vh_nontrivial(); if (stored_crc(w) != targets[ti]) vh_violation("wrong-checksum-written", "payload crafted to have %s CRC 0x%08x, stored 0x%08x", legacy ? "historical" : "standard", targets[ti], stored_crc(w)); }
                    for (int reader = 0; reader < 2; reader++) {
                        set_env(reader ? (legacy ? NULL : "1") : (legacy ? "1" : NULL));
                        if (vh_case_begin("reader%d/intact", reader)) { vh_nontrivial(); c10_verdict(&s, slot_put(0, w, fl), "intact, special checksum value"); c10_twin_verdict(&s, w, "intact, special checksum value"); }
                        for (uint32_t bit = 0; bit < bs * 8; bit++) {
                            if (!vh_case_begin("reader%d/pbit%u", reader, bit)) continue;
                            vh_nontrivial();
                            w[WIRE_HDR + (bit >> 3)] ^= (uint8_t)(1u << (bit & 7));
                            c10_verdict(&s, slot_put(0, w, fl), "payload bit flipped under a special checksum value");
                            if (bit % 8 == 0) c10_twin_verdict(&s, w, "payload bit flipped under a special checksum value");
                            w[WIRE_HDR + (bit >> 3)] ^= (uint8_t)(1u << (bit & 7));
                        }
                    }
                    set_env(legacy ? "1" : NULL);
                    free(w);
                    liberasurecode_encode_cleanup(s.desc, ed, ep);
                }
            } else vh_violation("harness", "cannot craft a block with %s CRC 0x%08x", legacy ? "historical" : "standard", targets[ti]);
        }
        stripe_close(&s, 0);
        vh_group_end();
    }
}

/* ---------------------------------------------------------------- C11 */
static void c11_compare(struct stripe *s, int fi, uint8_t *nat, uint8_t *tw, const char *name)
{
    /* native and twin carry the same logical values; impl(twin) must agree with the reference on the twin and with impl(native) */
    /* the output struct is the caller's and may hold anything (e.g. the result of an earlier query): poison it, so that a field the
     * library forgets to write on one of the two paths shows as a difference */
    fragment_metadata_t a, b; memset(&a, 0xA7, sizeof a); memset(&b, 0xA7, sizeof b);
    uint8_t *pn = slot_put(0, nat, s->flen), *pt = slot_put(1, tw, s->flen);
    int acc_n = ref_hdr_ok(nat), acc_t = ref_hdr_ok(tw);
    vh_op("is_invalid_fragment_header"); vh_transitions(4);
    int in = is_invalid_fragment_header((fragment_header_t *)pn), it = is_invalid_fragment_header((fragment_header_t *)pt);
    if ((it != 0) != !acc_t) vh_violation("header-verdict-differs", "%s f%d: twin header predicate=%d, reference %s", name, fi, it, acc_t ? "accept" : "reject");
    if ((in != 0) != !acc_n) vh_violation("header-verdict-differs", "%s f%d: native header predicate=%d, reference %s", name, fi, in, acc_n ? "accept" : "reject");
    vh_op("liberasurecode_get_fragment_metadata");
    int ra = liberasurecode_get_fragment_metadata((char *)pn, &a), rb = liberasurecode_get_fragment_metadata((char *)pt, &b);
    if ((ra == 0) != (acc_n != 0) || (rb == 0) != (acc_t != 0)) { vh_violation("header-verdict-differs", "%s f%d: metadata query native rc=%d twin rc=%d, reference native %d twin %d", name, fi, ra, rb, acc_n, acc_t); return; }
    if (ra != 0 || rb != 0) return;
    struct wire_fields lf; wire_get(nat, &lf);
    uint8_t ba[WIRE_HDR], bb[WIRE_HDR]; memset(ba, 0, sizeof ba); memset(bb, 0, sizeof bb); memcpy(ba, &a, 59); memcpy(bb, &b, 59);
    /* compare through wire offsets of the returned struct, all fields incl. every checksum word */
    struct wire_fields fa, fb; wire_get(ba, &fa); wire_get(bb, &fb);
#define CMPF(fld, fmt) do { if (fb.fld != lf.fld) vh_violation("twin-field-differs", "%s f%d: " #fld " read from the opposite-endian fragment is " fmt ", logical value " fmt, name, fi, fb.fld, lf.fld); \
                            if (fa.fld != lf.fld) vh_violation("native-field-differs", "%s f%d: " #fld " read from the native fragment is " fmt ", stored " fmt, name, fi, fa.fld, lf.fld); } while (0)
    CMPF(idx, "%u"); CMPF(size, "%u"); CMPF(bmsize, "%u"); CMPF(orig, "%lu"); CMPF(ct, "%u"); CMPF(chksum0, "0x%x"); CMPF(backend_id, "%u"); CMPF(backend_version, "0x%x");
    for (int w = 1; w < 8; w++) if (le32(bb + 21 + 4 * w) != le32(nat + 21 + 4 * w)) { vh_violation("twin-field-differs", "%s f%d: checksum word %d differs", name, fi, w); break; }
    int mm = ref_mismatch(nat, s->flen);
    if (nat[20] != CHKSUM_CRC32) {      /* no payload checksum to verify: the two readers merely have to agree */
        if (fa.mismatch != fb.mismatch) vh_violation("twin-mismatch-verdict", "%s f%d: mismatch flag native %d, opposite-endian %d", name, fi, fa.mismatch, fb.mismatch);
        return;
    }
    if (fa.mismatch != mm) vh_violation("native-mismatch-verdict", "%s f%d: native mismatch flag %d, reference %d", name, fi, fa.mismatch, mm);
    if (fb.mismatch != mm) vh_violation("twin-mismatch-verdict", "%s f%d: payload checksum mismatch on the opposite-endian fragment reported as %d, reference (and native reader) say %d", name, fi, fb.mismatch, mm);
}
static void plan_c11(void)
{
    int thorough = !strcmp(vh_tier(), "thorough");
    uint64_t lens[] = { 37, 0, 1, 1000 };
    /* checksum types NONE, CRC32 and MD5 (the library accepts the third and stores the type; it computes no MD5) */
    for (int ci = 0; ci < NCOVER; ci++) for (int ct = CHKSUM_NONE; ct <= CHKSUM_MD5; ct++) for (int li = 0; li < (thorough ? 4 : 3); li++) for (int e = 0; e < 2; e++) {
        struct shape sh = COVER[ci];
        if (sh.be == EC_BACKEND_NULL && (li || e)) continue;
        if (e && ct != CHKSUM_CRC32) continue;
        if (ct == CHKSUM_MD5 && li) continue;
        if (!vh_group_begin("F/C11/%s/k%dm%dhd%d/ct%d/len%lu/env%s", be_name(sh.be), sh.k, sh.m, sh.hd, ct, (unsigned long)lens[li], ENVS[e] ? ENVS[e] : "-")) continue;
        struct stripe s;
        if (stripe_open(&s, sh, ct, lens[li], PAT_RAMP, ENVS[e]) == 0) {
            uint32_t bs = (uint32_t)(s.flen - WIRE_HDR);
            uint8_t *nat = malloc(s.flen), *tw = malloc(s.flen);
            for (int fi = 0; fi < s.n; fi++) {
                if (s.n > 8 && !thorough && !(fi == 0 || fi == sh.k - 1 || fi == sh.k || fi == s.n - 1)) continue;
                if (vh_case_begin("f%d/intact", fi)) {
                    vh_nontrivial();
                    memcpy(nat, enc_frag(&s, fi), s.flen); memcpy(tw, nat, s.flen); wire_byteswap_twin(tw);
                    c11_compare(&s, fi, nat, tw, "intact");
                    /* stripe verification is handed the opposite-endian fragment on a read-only page: whatever its verdict, it must not
                     * write to the fragment, and the fragment must read exactly as before afterwards */
                    uint8_t *pt = slot_put(1, tw, s.flen); char *one[1] = { (char *)pt };
                    vh_op("liberasurecode_verify_stripe_metadata"); vh_transitions(3);
                    int v1 = liberasurecode_verify_stripe_metadata(s.desc, one, 1), v2 = liberasurecode_verify_stripe_metadata(s.desc, one, 1);
                    if (v1 != v2) vh_violation("twin-verdict-unstable", "f%d: two successive stripe verifications of the same opposite-endian fragment returned %d and %d", fi, v1, v2);
                    if (memcmp(pt, tw, s.flen)) vh_violation("input-modified", "f%d: stripe verification modified the opposite-endian fragment", fi);
                    c11_compare(&s, fi, nat, tw, "intact, after stripe verification");
                }
                /* writers older than 1.2.0 (no metadata checksum), incl. versions with a non-zero revision byte: both byte orders must be read alike */
                { static const uint32_t oldv[] = { 0x010000, 0x010009, 0x010100, 0x010101, 0x0101ff, 0x000001, 0x0100ff };
                  for (int q = 0; q < 7; q++) for (int dmg = 0; dmg < 2; dmg++) {
                      if (!vh_case_begin("f%d/writer%06x/%s", fi, oldv[q], dmg ? "payload-damaged" : "intact")) continue;
                      vh_nontrivial();
                      /* such writers stored no metadata checksum: the field holds whatever it held (zero here), in both byte orders */
                      memcpy(nat, enc_frag(&s, fi), s.flen); put_le32(nat + 63, oldv[q]); put_le32(nat + 67, 0); if (dmg && bs) nat[WIRE_HDR + bs - 1] ^= 0x40;
                      memcpy(tw, nat, s.flen); twin_raw(tw);
                      c11_compare(&s, fi, nat, tw, "old-writer");
                      put_le32(nat + 67, 0xdeadbeef); memcpy(tw, nat, s.flen); twin_raw(tw);
                      c11_compare(&s, fi, nat, tw, "old-writer, garbage in the checksum field");
                  } }
                /* payload damage: both readers must flag it */
                for (uint32_t bit = 0; bit < bs * 8; bit += (bs > 16 ? 37 : 1)) {
                    if (!vh_case_begin("f%d/pbit%u", fi, bit)) continue;
                    vh_nontrivial();
                    memcpy(nat, enc_frag(&s, fi), s.flen); nat[WIRE_HDR + (bit >> 3)] ^= (uint8_t)(1u << (bit & 7));
                    memcpy(tw, nat, s.flen); wire_byteswap_twin(tw);
                    c11_compare(&s, fi, nat, tw, "payload-bit");
                }
                /* 64-bit original length: values that need the upper half (the metadata query only reports this field) */
                { static const uint64_t ol[] = { 0x100000000ull, 0x100000001ull, 0x8000000000000000ull, 0xffffffffffffffffull, 0x0102030405060708ull, 0xffffffffull, 0x80000000ull };
                  for (int q = 0; q < 7; q++) {
                      if (!vh_case_begin("f%d/orig=%lx", fi, (unsigned long)ol[q])) continue;
                      vh_nontrivial();
                      memcpy(nat, enc_frag(&s, fi), s.flen); for (int b8 = 0; b8 < 8; b8++) nat[12 + b8] = (uint8_t)(ol[q] >> (8 * b8));
                      wire_seal(nat, 0); memcpy(tw, nat, s.flen); wire_byteswap_twin(tw);
                      c11_compare(&s, fi, nat, tw, "original-length");
                  } }
                /* header damage on both sides: resealed (both accept) and raw (verdicts per reference) */
                for (int bit = 0; bit < 71 * 8; bit += (thorough ? 1 : 3)) for (int sl = 0; sl < 2; sl++) {
                    if (bit >= 32 && bit < 96) continue;       /* size fields: forged lengths are out of scope (see DESIGN 3.F) */
                    if (bit >= 96 && bit < 160) continue;      /* original length likewise */
                    if (!vh_case_begin("f%d/hbit%d/%s", fi, bit, sl ? "resealed" : "raw")) continue;
                    vh_nontrivial();
                    memcpy(nat, enc_frag(&s, fi), s.flen); nat[bit >> 3] ^= (uint8_t)(1u << (bit & 7));
                    if (sl) wire_seal(nat, 0);
                    memcpy(tw, nat, s.flen);
                    if (sl) wire_byteswap_twin(tw); else twin_raw(tw);
                    /* a flipped magic/version bit can make one of the two unreadable; the comparison handles that per reference */
                    if (ref_hdr_ok(nat) && ref_hdr_ok(tw) && ref_host_order(nat) && !ref_host_order(tw)) c11_compare(&s, fi, nat, tw, "header-bit");
                    else {
                        vh_op("is_invalid_fragment_header"); vh_transitions(2);
                        int it = is_invalid_fragment_header((fragment_header_t *)slot_put(1, tw, s.flen));
                        if ((it != 0) != !ref_hdr_ok(tw)) vh_violation("header-verdict-differs", "header bit %d %s: twin predicate=%d reference %d", bit, sl ? "resealed" : "raw", it, ref_hdr_ok(tw));
                        int in = is_invalid_fragment_header((fragment_header_t *)slot_put(0, nat, s.flen));
                        if ((in != 0) != !ref_hdr_ok(nat)) vh_violation("header-verdict-differs", "header bit %d %s: native predicate=%d reference %d", bit, sl ? "resealed" : "raw", in, ref_hdr_ok(nat));
                    }
                }
            }
            free(nat); free(tw);
        }
        stripe_close(&s, 0);
        vh_group_end();
    }
}

/* ---------------------------------------------------------------- C12 */
static int ref_frag_valid(const struct shape *I, const uint8_t *f, size_t flen)
{
    uint32_t LIB = liberasurecode_get_version();
    if (!ref_hdr_ok(f) || !ref_host_order(f)) return 0;
    if (le32(f + 63) > LIB) return 0;
    if (le32(f + 0) >= (uint32_t)(I->k + I->m)) return 0;
    if (f[54] != (uint8_t)I->be) return 0;
    if (I->be != EC_BACKEND_NULL && le32(f + 55) != golden_backend_version(I->be)) return 0;
    int mm = ref_mismatch(f, flen);
    if (mm) return 0;
    return 1;
}
static void c12_one(int desc, const struct shape *I, uint8_t *w, size_t flen, const char *name)
{
    int want = ref_frag_valid(I, w, flen);
    uint8_t *m = slot_put(0, w, flen);
    vh_op("is_invalid_fragment"); vh_transitions(1);
    int inv = is_invalid_fragment(desc, (char *)m);
    if ((inv == 0) != (want != 0)) vh_violation(want ? "good-fragment-rejected" : "bad-fragment-accepted", "%s: is_invalid_fragment=%d, reference says the fragment is %s for a (%s,%d,%d) instance", name, inv, want ? "valid" : "invalid", be_name(I->be), I->k, I->m);
}
static void plan_c12(void)
{
    int thorough = !strcmp(vh_tier(), "thorough");
    uint32_t LIB = liberasurecode_get_version();
    for (int ii = 0; ii < NCOVER; ii++) for (int jj = 0; jj < NCOVER; jj++) for (int ct = CHKSUM_NONE; ct <= CHKSUM_CRC32; ct++) {
        struct shape I = COVER[ii], J = COVER[jj];
        if (!vh_group_begin("F/C12/I-%s-k%dm%d/J-%s-k%dm%d/ct%d", be_name(I.be), I.k, I.m, be_name(J.be), J.k, J.m, ct)) continue;
        int di = create_instance(&I, ct);
        struct stripe s;
        if (di <= 0) vh_violation("create-refused", "create returned %d", di);
        else if (stripe_open(&s, J, ct, 37, PAT_RAMP, NULL) == 0) {
            uint8_t *w = malloc(s.flen); int nI = I.k + I.m;
            int fis[32] = { 0, s.n - 1, J.k }; int nfis = 3;
            if (thorough && s.n <= 12) { nfis = s.n; for (int i = 0; i < s.n; i++) fis[i] = i; }     /* thorough: every fragment of the foreign stripe as base */
            for (int q = 0; q < nfis; q++) {
                int fi = fis[q]; if (nfis == 3) { if (q && fi == fis[0]) continue; if (q == 2 && fi == fis[1]) continue; }
                const uint8_t *base = (uint8_t *)enc_frag(&s, fi);
#define C12(namefmt, ...) do { char nm[96]; snprintf(nm, sizeof nm, namefmt, __VA_ARGS__); if (vh_case_begin("f%d/%s", fi, nm)) { vh_nontrivial(); c12_one(di, &I, w, s.flen, nm); } } while (0)
                memcpy(w, base, s.flen); C12("%s", "pristine");
                /* in-place damage of a fragment that has just validated, seal left as it was (stale): every 5th header bit */
                for (int bit = 0; bit < 71 * 8; bit += 5) { memcpy(w, base, s.flen); w[bit >> 3] ^= (uint8_t)(1u << (bit & 7)); C12("stale-bit%d", bit); memcpy(w, base, s.flen); if (bit % 25 == 0) C12("pristine-after-bit%d", bit); }
                uint32_t idxs[] = { 0, (uint32_t)nI - 1, (uint32_t)nI, (uint32_t)nI + 1, 0x80000000u, 0xffffffffu, 31, 32 };
                for (int x = 0; x < 8; x++) { memcpy(w, base, s.flen); put_le32(w, idxs[x]); wire_seal(w, 0); C12("idx=%u", idxs[x]); }
                for (int b = 0; b < 256; b++) { memcpy(w, base, s.flen); w[54] = (uint8_t)b; wire_seal(w, 0); C12("backend_id=%d", b); }
                uint32_t v0 = le32(base + 55), bvs[] = { v0 - 1, v0, v0 + 1, 0, golden_backend_version(I.be), golden_backend_version(I.be) + 1, golden_backend_version(I.be) ^ 0x010000 };
                for (int x = 0; x < 7; x++) { memcpy(w, base, s.flen); put_le32(w + 55, bvs[x]); wire_seal(w, 0); C12("backend_version=%08x", bvs[x]); }
                /* every single-bit neighbour of the version and of the index (all 32 bits of each field take part in the comparison), resealed */
                for (int b = 0; b < 32; b++) { memcpy(w, base, s.flen); put_le32(w + 55, v0 ^ (1u << b)); wire_seal(w, 0); C12("backend_version=%08x", v0 ^ (1u << b));
                                               memcpy(w, base, s.flen); put_le32(w, le32(base) ^ (1u << b)); wire_seal(w, 0); C12("idx=%u", le32(base) ^ (1u << b)); }
                /* foreign fragment relabelled as ours: id and version of I */
                memcpy(w, base, s.flen); w[54] = (uint8_t)I.be; put_le32(w + 55, golden_backend_version(I.be)); put_le32(w, 0); wire_seal(w, 0); C12("%s", "relabelled-as-instance-backend");
                /* older versions whose minor or revision byte is LARGER than the running library's are still older */
                uint32_t lvs[] = { 1, 0x010100, 0x010200, LIB - 1, LIB, LIB + 1, 0xffffffffu, 0, 0x010009, 0x0100ff, 0x0105ff, 0x000700, 0x0001ff, 0x00ffff, (LIB & 0xffff00) + 0x100, (LIB & 0xff0000) + 0x10000 };
                for (int x = 0; x < 16; x++) for (int sl = 0; sl < 2; sl++) { memcpy(w, base, s.flen); put_le32(w + 63, lvs[x]); if (sl) wire_seal(w, 0); C12("libec_version=%08x/%s", lvs[x], sl ? "resealed" : "stale"); }
                memcpy(w, base, s.flen); wire_byteswap_twin(w); C12("%s", "opposite-endian-twin");
                /* opposite-endian fragments of old writers (their version word, byte-swapped, may look older than the running library) */
                { static const uint32_t oldv[] = { 0x010000, 0x010100, 0x010009, 0x0101ff, 0x010200, 0x000001 };
                  for (int x = 0; x < 6; x++) { memcpy(w, base, s.flen); put_le32(w + 63, oldv[x]); wire_seal(w, 0); wire_byteswap_twin(w); C12("opposite-endian-twin/writer%06x", oldv[x]);
                                                 memcpy(w, base, s.flen); put_le32(w + 63, oldv[x]); put_le32(w + 67, 0); twin_raw(w); C12("opposite-endian-twin/writer%06x/unsealed", oldv[x]); } }
                /* a correctly sealed header that carries a set mismatch flag over an intact CRC32 payload: the verdict is computed, not copied */
                if (base[20] == CHKSUM_CRC32) { memcpy(w, base, s.flen); w[53] = 1; wire_seal(w, 0); C12("%s", "stored-mismatch-flag-over-intact-payload"); }
                memcpy(w, base, s.flen); w[3] ^= 1; C12("%s", "stale-metadata-crc");
                /* payload damage */
                uint32_t bs = (uint32_t)(s.flen - WIRE_HDR);
                for (uint32_t bit = 0; bit < bs * 8; bit += (thorough ? 1 : 7)) { memcpy(w, base, s.flen); w[WIRE_HDR + (bit >> 3)] ^= (uint8_t)(1u << (bit & 7)); C12("pbit%u", bit); }
                /* checksum type rewritten (resealed): NONE->CRC32 makes the zero checksum wrong; CRC32->NONE hides damage: both per reference */
                for (int t = 0; t < 4; t++) { memcpy(w, base, s.flen); w[20] = (uint8_t)t; if (bs) w[WIRE_HDR] ^= 0x10; wire_seal(w, 0); C12("chksum_type=%d+payload-damage", t); }
            }
            /* stripe-metadata verification: lists of <= 3 fragments with at most one bad one, every position */
            if (I.be == J.be && I.k == J.k && I.m == J.m) {
                uint8_t *bad = malloc(s.flen);
                const char *kinds[] = { "idx=k+m", "idx=2^31", "backend_id+1", "backend_version+1", "mismatch-flag-set", "none" };
                for (int kind = 0; kind < 6; kind++) for (int len = 1; len <= 3; len++) for (int pos = 0; pos < len; pos++) {
                    if (kind == 5 && pos) continue;
                    if (kind == 3 && I.be == EC_BACKEND_NULL) continue;
                    if (!vh_case_begin("stripe/%s/len%d/pos%d", kinds[kind], len, pos)) continue;
                    vh_nontrivial();
                    memcpy(bad, enc_frag(&s, s.n > 1 ? 1 : 0), s.flen);
                    switch (kind) {
                    case 0: put_le32(bad, (uint32_t)nI); break;
                    case 1: put_le32(bad, 0x80000000u); break;
                    case 2: bad[54] = (uint8_t)(bad[54] + 1); break;
                    case 3: put_le32(bad + 55, le32(bad + 55) + 1); break;
                    case 4: bad[53] = 1; break;
                    }
                    wire_seal(bad, 0);
                    uint8_t *pb = slot_put(1, bad, s.flen);
                    char **arr = (char **)(s.gptr.p + s.gptr.len) - len;
                    for (int i = 0; i < len; i++) arr[i] = (kind != 5 && i == pos) ? (char *)pb : (char *)frag_at(&s, GP_END, (i * 2) % s.n);
                    vh_op("liberasurecode_verify_stripe_metadata"); vh_transitions(1);
                    int rc = liberasurecode_verify_stripe_metadata(di, arr, len);
                    if (kind == 5 ? rc != 0 : rc >= 0) vh_violation(kind == 5 ? "good-stripe-rejected" : "bad-stripe-accepted", "verify_stripe_metadata with %s at position %d of %d returned %d", kinds[kind], pos, len, rc);
                }
                free(bad);
            }
            free(w);
            stripe_close(&s, 0);
        }
        if (di > 0) liberasurecode_instance_destroy(di);
        vh_group_end();
    }
    /* every freshly encoded / reconstructed fragment of every shape validates as good */
    struct shape *sh = malloc(sizeof(struct shape) * 2000); int ns = 0;
    ns += shapes_km(sh + ns, EC_BACKEND_LIBERASURECODE_RS_VAND, 32); ns += shapes_xor(sh + ns);
    ns += shapes_km(sh + ns, EC_BACKEND_ISA_L_RS_VAND, thorough ? 32 : 12); ns += shapes_km(sh + ns, EC_BACKEND_ISA_L_RS_CAUCHY, thorough ? 32 : 12);
    for (int i = 0; i < ns; i++) for (int ct = CHKSUM_NONE; ct <= CHKSUM_CRC32; ct++) {
        if (!vh_group_begin("F/C12/fresh/%s/k%dm%dhd%d/ct%d", be_name(sh[i].be), sh[i].k, sh[i].m, sh[i].hd, ct)) continue;
        struct stripe s; uint64_t a = (uint64_t)sh[i].k * word_bytes(sh[i].be);
        if (stripe_open(&s, sh[i], ct, 2 * a + 3, PAT_RAMP, NULL) == 0) {
            for (int f = 0; f < s.n; f++) if (vh_case_begin("encoded/f%d", f)) {
                vh_nontrivial(); vh_op("is_invalid_fragment"); vh_transitions(1);
                if (is_invalid_fragment(s.desc, (char *)frag_at(&s, GP_END, f))) vh_violation("good-fragment-rejected", "freshly encoded fragment %d fails validation", f);
            }
            int ds[2] = { 0, sh[i].k };
            for (int q = 0; q < 2; q++) if (vh_case_begin("reconstructed/f%d", ds[q])) {
                vh_nontrivial();
                char **arr = (char **)(s.gptr.p + s.gptr.len) - s.n; int nf = 0;
                for (int f = 0; f < s.n; f++) if (f != ds[q]) arr[nf++] = (char *)frag_at(&s, GP_END, f);
                uint8_t *ob = s.gout.p + s.gout.len - s.flen;
                vh_op("liberasurecode_reconstruct_fragment"); vh_transitions(2);
                int rc = liberasurecode_reconstruct_fragment(s.desc, arr, nf, s.flen, ds[q], (char *)ob);
                vh_op("is_invalid_fragment");
                if (rc != 0) vh_violation("reconstruct-failed", "dest %d rc=%d", ds[q], rc);
                else if (is_invalid_fragment(s.desc, (char *)ob)) vh_violation("good-fragment-rejected", "freshly reconstructed fragment %d fails validation", ds[q]);
            }
            char **arr = (char **)(s.gptr.p + s.gptr.len) - s.n;
            for (int f = 0; f < s.n; f++) arr[f] = (char *)frag_at(&s, GP_END, f);
            if (vh_case_begin("stripe")) { vh_nontrivial(); vh_op("liberasurecode_verify_stripe_metadata"); vh_transitions(1);
                int rc = liberasurecode_verify_stripe_metadata(s.desc, arr, s.n); if (rc != 0) vh_violation("good-stripe-rejected", "fresh stripe: verify_stripe_metadata returned %d", rc); }
        }
        stripe_close(&s, 0);
        vh_group_end();
    }
    free(sh);
}

/* ---------------------------------------------------------------- C20 */
static int isa_invertible(const struct shape *sh, uint32_t E)
{
    int k = sh->k, n = sh->k + sh->m; uint8_t *G = malloc((size_t)n * k);
    if (sh->be == EC_BACKEND_ISA_L_RS_VAND) gf8_gen_rs_matrix(G, n, k); else gf8_gen_cauchy1_matrix(G, n, k);
    uint16_t *M = malloc(sizeof(uint16_t) * (size_t)k * k); int r = 0;
    for (int i = 0; i < n && r < k; i++) if (!(E >> i & 1)) { for (int j = 0; j < k; j++) M[r * k + j] = G[i * k + j]; r++; }
    int ok = r == k && f_rank(M, k, k, gf8_mul16, gf8_inv16) == k;
    free(M); free(G); return ok;
}
enum { DMG_PAYLOAD_FIRST, DMG_PAYLOAD_MID, DMG_PAYLOAD_LAST, DMG_IDX, DMG_BACKEND_ID, DMG_BACKEND_VER, DMG_LIBVER, DMG_IDX_N1, DMG_IDX_2_31, DMG_IDX_MAX, DMG_BACKEND_VER_0,
       DMG_LIBVER_OTHER_PAYLOAD, DMG_BACKEND_ID_OTHER_PAYLOAD, DMG_TWIN, DMG_TWIN_OTHER_PAYLOAD, DMG_BACKEND_VER_B24_OTHER_PAYLOAD, DMG_BACKEND_VER_B31_OTHER_PAYLOAD, NDMG };
static const char *dmg_name[NDMG] = { "payload-first", "payload-mid", "payload-last", "idx=k+m", "foreign-backend-id", "backend-version+1", "libec-version+1", "idx=k+m+1", "idx=2^31", "idx=2^32-1", "backend-version=0",
                                      "libec-version+1,other-payload-consistently-stamped", "foreign-backend-id,other-payload-consistently-stamped", "opposite-endian-twin", "opposite-endian-twin,other-payload",
                                      "backend-version^2^24,other-payload-consistently-stamped", "backend-version^2^31,other-payload-consistently-stamped" };
/* a different payload under a payload checksum that matches it: only the header field says the fragment is not ours */
static void other_payload(uint8_t *f, size_t flen)
{
    size_t bs = flen - WIRE_HDR; for (size_t i = 0; i < bs; i++) f[WIRE_HDR + i] ^= (uint8_t)(0x35 + 7 * i);
    if (f[20] == CHKSUM_CRC32) put_le32(f + 21, crc_std(f + WIRE_HDR, bs));
}
static void damage(uint8_t *f, size_t flen, int kind, int n)
{
    size_t bs = flen - WIRE_HDR;
    switch (kind) {
    case DMG_PAYLOAD_FIRST: f[WIRE_HDR] ^= 0x01; return;
    case DMG_PAYLOAD_MID: f[WIRE_HDR + bs / 2] ^= 0x10; return;
    case DMG_PAYLOAD_LAST: f[flen - 1] ^= 0x80; return;
    case DMG_IDX: put_le32(f, (uint32_t)n); break;
    case DMG_IDX_N1: put_le32(f, (uint32_t)n + 1); break;
    case DMG_IDX_2_31: put_le32(f, 0x80000000u); break;
    case DMG_IDX_MAX: put_le32(f, 0xffffffffu); break;
    case DMG_BACKEND_VER_0: put_le32(f + 55, 0); break;
    case DMG_LIBVER_OTHER_PAYLOAD: other_payload(f, flen); put_le32(f + 63, liberasurecode_get_version() + 1); break;
    case DMG_BACKEND_ID_OTHER_PAYLOAD: other_payload(f, flen); f[54] = (uint8_t)(f[54] == EC_BACKEND_FLAT_XOR_HD ? EC_BACKEND_LIBERASURECODE_RS_VAND : EC_BACKEND_FLAT_XOR_HD); break;
    case DMG_BACKEND_VER_B24_OTHER_PAYLOAD: other_payload(f, flen); put_le32(f + 55, le32(f + 55) ^ 0x01000000u); break;
    case DMG_BACKEND_VER_B31_OTHER_PAYLOAD: other_payload(f, flen); put_le32(f + 55, le32(f + 55) ^ 0x80000000u); break;
    case DMG_TWIN: wire_byteswap_twin(f); return;
    case DMG_TWIN_OTHER_PAYLOAD: other_payload(f, flen); wire_seal(f, 0); wire_byteswap_twin(f); return;
    case DMG_BACKEND_ID: f[54] = (uint8_t)(f[54] == EC_BACKEND_FLAT_XOR_HD ? EC_BACKEND_LIBERASURECODE_RS_VAND : EC_BACKEND_FLAT_XOR_HD); break;
    case DMG_BACKEND_VER: put_le32(f + 55, le32(f + 55) + 1); break;
    case DMG_LIBVER: put_le32(f + 63, liberasurecode_get_version() + 1); break;
    }
    wire_seal(f, 0);
}
static void plan_c20(void)
{
    int thorough = !strcmp(vh_tier(), "thorough");
    static const struct shape cfg[] = {
        { EC_BACKEND_LIBERASURECODE_RS_VAND, 2, 1, 1 }, { EC_BACKEND_LIBERASURECODE_RS_VAND, 4, 2, 2 }, { EC_BACKEND_LIBERASURECODE_RS_VAND, 3, 3, 3 },
        { EC_BACKEND_FLAT_XOR_HD, 3, 3, 3 }, { EC_BACKEND_ISA_L_RS_VAND, 4, 2, 2 }, { EC_BACKEND_ISA_L_RS_CAUCHY, 4, 2, 2 }, { EC_BACKEND_FLAT_XOR_HD, 5, 5, 3 },
        { EC_BACKEND_LIBERASURECODE_RS_VAND, 1, 2, 2 }, { EC_BACKEND_LIBERASURECODE_RS_VAND, 5, 3, 3 },
    };
    uint64_t lens[] = { 0, 0 };
    /* thorough: additionally every (k,m) with k+m <= 7 of rs_vand and k+m <= 5 of the two ISA-L adapters, and two more flat-XOR shapes */
    static struct shape all[128]; int nall = 0;
    for (int i = 0; i < 9; i++) all[nall++] = cfg[i];
    if (thorough) {
        for (int n2 = 2; n2 <= 7; n2++) for (int k2 = 1; k2 < n2; k2++) { struct shape t = { EC_BACKEND_LIBERASURECODE_RS_VAND, k2, n2 - k2, n2 - k2 }; int dup = 0; for (int i = 0; i < nall; i++) if (all[i].be == t.be && all[i].k == t.k && all[i].m == t.m) dup = 1; if (!dup) all[nall++] = t; }
        for (int b = 0; b < 2; b++) for (int n2 = 2; n2 <= 5; n2++) for (int k2 = 1; k2 < n2; k2++) { struct shape t = { b ? EC_BACKEND_ISA_L_RS_CAUCHY : EC_BACKEND_ISA_L_RS_VAND, k2, n2 - k2, n2 - k2 }; all[nall++] = t; }
        { struct shape t1 = { EC_BACKEND_FLAT_XOR_HD, 6, 6, 4 }, t2 = { EC_BACKEND_FLAT_XOR_HD, 5, 5, 4 }; all[nall++] = t1; all[nall++] = t2; }
    }
    for (int ci = 0; ci < nall; ci++) for (int li = 0; li < (thorough ? 2 : 1); li++) {
        struct shape sh = all[ci]; int n = sh.k + sh.m;
        uint64_t a = (uint64_t)sh.k * word_bytes(sh.be); lens[0] = 2 * a + 3; lens[1] = 16 * a;
        uint32_t full = (1u << n) - 1;
        for (uint32_t S = 1; S <= full; S++) {
            if (__builtin_popcount(S) < sh.k) continue;
            if (!vh_group_begin("F/C20/%s/k%dm%dhd%d/len%lu/S%x", be_name(sh.be), sh.k, sh.m, sh.hd, (unsigned long)lens[li], S)) continue;
            struct stripe s;
            if (stripe_open(&s, sh, CHKSUM_CRC32, lens[li], PAT_RAMP, NULL) == 0) {
                uint8_t *w = malloc(s.flen);
                int maxb = thorough && n <= 6 ? n : 2;
                for (uint32_t B = 0; B <= full; B++) {
                    if ((B & ~S) || __builtin_popcount(B) > maxb) continue;
                    for (int kind = 0; kind < NDMG; kind++) for (int force = 1; force >= 0; force--) {
                        if (!B && kind) continue;
                        if (!force && !(kind == DMG_PAYLOAD_MID || kind == DMG_IDX)) continue;
                        if (!vh_case_begin("B%x/%s/force%d", B, dmg_name[kind], force)) continue;
                        char **arr = (char **)(s.gptr.p + s.gptr.len) - n; int nf = 0, sl = 0;
                        for (int i = 0; i < n; i++) {
                            if (!(S >> i & 1)) continue;
                            if (B >> i & 1) {
                                memcpy(w, enc_frag(&s, i), s.flen); damage(w, s.flen, kind, n);
                                if (sl < 2) arr[nf++] = (char *)slot_put(sl++, w, s.flen);
                                else { gbuf_t *g = &s.gfrag[GP_ODD][i]; if (!g->map) gbuf_alloc(g, s.flen, GP_END); gbuf_writable(g); memcpy(g->p, w, s.flen); gbuf_readonly(g); arr[nf++] = (char *)g->p; }
                            } else arr[nf++] = (char *)frag_at(&s, GP_END, i);
                        }
                        uint32_t validE = full & ~(S & ~B);     /* erasure set if only the valid fragments are used */
                        int e = __builtin_popcount(validE);
                        int within = is_xor(sh.be) ? e < sh.hd : (e <= sh.m && (!is_isa(sh.be) || isa_invertible(&sh, validE)));
                        int hopeless = is_xor(sh.be) ? !xor_recoverable(s.xorp, sh.k, sh.m, validE) : e > sh.m;
                        { char opn[96]; snprintf(opn, sizeof opn, "liberasurecode_decode:%s:force%d", be_name(sh.be), force); vh_op(opn); }
                        char *out = NULL; uint64_t outlen = 0; vh_transitions(1);
                        int rc = liberasurecode_decode(s.desc, arr, nf, s.flen, force, &out, &outlen);
                        int exact = rc == 0 && outlen == s.len && (!s.len || (out && !memcmp(out, s.data, s.len)));
                        if (B) vh_nontrivial();
                        if (force) {
                            if (rc == 0 && !exact) vh_violation("invalid-fragment-changed-result", "S=0x%x damaged=0x%x (%s): forced decode returned success with wrong bytes", S, B, dmg_name[kind]);
                            else if (rc > 0) vh_violation("positive-rc", "rc=%d", rc);
                            else if (within && rc != 0) vh_violation("refused-although-valid-fragments-suffice", "S=0x%x damaged=0x%x (%s): the %d valid fragments are within tolerance but forced decode returned %d", S, B, dmg_name[kind], n - e, rc);
                            else if (hopeless && rc == 0) vh_violation("success-from-invalid-fragments", "S=0x%x damaged=0x%x (%s): only %d valid fragments remain (not enough) yet forced decode succeeded", S, B, dmg_name[kind], n - e);
                        } else {
                            if (rc == 0 && !exact) vh_count("unforced_decodes_returning_wrong_bytes", 1);
                            if (rc == 0 && exact) vh_count("unforced_decodes_exact", 1);
                        }
                        if (out && ledger_has(out)) liberasurecode_decode_cleanup(s.desc, out);
                    }
                }
                /* a damaged copy listed BEFORE an intact copy of the same fragment: the intact one must still count */
                for (int i = 0; i < n; i++) {
                    if (!(S >> i & 1)) continue;
                    if (!vh_case_begin("dup%d/damaged-copy-first/force1", i)) continue;
                    vh_nontrivial();
                    char **arr = (char **)(s.gptr.p + s.gptr.len) - (n + 1); int nf = 0;
                    memcpy(w, enc_frag(&s, i), s.flen); damage(w, s.flen, DMG_PAYLOAD_MID, n);
                    arr[nf++] = (char *)slot_put(0, w, s.flen); arr[nf++] = (char *)frag_at(&s, GP_END, i);
                    for (int j = 0; j < n; j++) if ((S >> j & 1) && j != i) arr[nf++] = (char *)frag_at(&s, GP_END, j);
                    uint32_t validE = full & ~S; int e = __builtin_popcount(validE);
                    int within = is_xor(sh.be) ? e < sh.hd : (e <= sh.m && (!is_isa(sh.be) || isa_invertible(&sh, validE)));
                    { char opn[96]; snprintf(opn, sizeof opn, "liberasurecode_decode:%s:force1", be_name(sh.be)); vh_op(opn); }
                    char *out = NULL; uint64_t outlen = 0; vh_transitions(1);
                    int rc = liberasurecode_decode(s.desc, arr, nf, s.flen, 1, &out, &outlen);
                    int exact = rc == 0 && outlen == s.len && (!s.len || (out && !memcmp(out, s.data, s.len)));
                    if (rc == 0 && !exact) vh_violation("invalid-fragment-changed-result", "S=0x%x, damaged copy of %d listed before its intact copy: forced decode returned success with wrong bytes", S, i);
                    else if (rc > 0) vh_violation("positive-rc", "rc=%d", rc);
                    else if (within && rc != 0) vh_violation("refused-although-valid-fragments-suffice", "S=0x%x, damaged copy of %d listed before its intact copy: the valid fragments are within tolerance but forced decode returned %d", S, i, rc);
                    if (out && ledger_has(out)) liberasurecode_decode_cleanup(s.desc, out);
                }
                /* every single payload bit of every fragment, all fragments supplied: a flip that the checksum comparison fails to
                 * notice (e.g. only part of the stored value compared) would let a damaged data fragment through the fast path */
                if (S == full) for (int i = 0; i < n; i++) {
                    uint32_t bs2 = (uint32_t)(s.flen - WIRE_HDR);
                    /* the fragment that gets damaged is one the library REBUILT (what a repaired stripe holds), not the one encode wrote */
                    uint8_t *rebuilt = malloc(s.flen); int have_rebuilt = 0;
                    { char **ra = (char **)(s.gptr.p + s.gptr.len) - n; int rn = 0; for (int j = 0; j < n; j++) if (j != i) ra[rn++] = (char *)frag_at(&s, GP_END, j);
                      vh_op("liberasurecode_reconstruct_fragment"); have_rebuilt = liberasurecode_reconstruct_fragment(s.desc, ra, rn, s.flen, i, (char *)rebuilt) == 0; }
                    for (uint32_t bit = 0; bit < bs2 * 8; bit++) {
                        if (bs2 > 128 && (bit >> 3) >= 64 && (bit >> 3) < bs2 - 64) continue;
                        if (!vh_case_begin("B%x/payload-bit%u/force1", 1u << i, bit)) continue;
                        vh_nontrivial();
                        char **arr = (char **)(s.gptr.p + s.gptr.len) - n; int nf = 0;
                        memcpy(w, have_rebuilt && (bit & 1) ? (char *)rebuilt : enc_frag(&s, i), s.flen); w[WIRE_HDR + (bit >> 3)] ^= (uint8_t)(1u << (bit & 7));
                        for (int j = 0; j < n; j++) arr[nf++] = j == i ? (char *)slot_put(0, w, s.flen) : (char *)frag_at(&s, GP_END, j);
                        { char opn[96]; snprintf(opn, sizeof opn, "liberasurecode_decode:%s:force1", be_name(sh.be)); vh_op(opn); }
                        char *out = NULL; uint64_t outlen = 0; vh_transitions(1);
                        int rc = liberasurecode_decode(s.desc, arr, nf, s.flen, 1, &out, &outlen);
                        int exact = rc == 0 && outlen == s.len && (!s.len || (out && !memcmp(out, s.data, s.len)));
                        /* one damaged fragment out of n: the other n-1 >= k valid ones always suffice for these shapes */
                        if (rc == 0 && !exact) vh_violation("invalid-fragment-changed-result", "fragment %d payload bit %u flipped: forced decode returned success with wrong bytes", i, bit);
                        else if (rc != 0) vh_violation("refused-although-valid-fragments-suffice", "fragment %d payload bit %u flipped: the other %d fragments are valid but forced decode returned %d", i, bit, n - 1, rc);
                        if (out && ledger_has(out)) liberasurecode_decode_cleanup(s.desc, out);
                    }
                    free(rebuilt);
                }
                free(w);
            }
            stripe_close(&s, 0);
            vh_group_end();
        }
    }
}

static void engine(void)
{
    if (ref_init()) { fprintf(stderr, "ref init failed\n"); exit(2); }
    init_liberasurecode_rs_vand_pin();
    const char *p = vh_plan();
    if (!strcmp(p, "c09")) plan_c09();
    else if (!strcmp(p, "c10")) { plan_c10(); plan_c10_special(); }
    else if (!strcmp(p, "c11")) plan_c11();
    else if (!strcmp(p, "c12")) plan_c12();
    else if (!strcmp(p, "c20")) plan_c20();
    else { fprintf(stderr, "unknown plan %s\n", p); exit(2); }
}
int main(int argc, char **argv) { return vh_main(argc, argv, engine); }
