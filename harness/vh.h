/* Common harness machinery: crash-isolating enumerator, allocation ledger,
 * guarded placement, syslog interposition. See DESIGN.md section 2. */
#ifndef VH_H
#define VH_H
#include <stdint.h>
#include <stddef.h>
#include <stdarg.h>
#include <sys/types.h>

/* ---------- enumerator / supervisor ---------- */
/* engine entry point, called in each executor child; enumerates groups and cases */
typedef void (*vh_engine_fn)(void);
int vh_main(int argc, char **argv, vh_engine_fn fn);
const char *vh_plan(void);            /* --plan value */
const char *vh_tier(void);            /* quick | thorough */
long vh_opt(const char *name, long dflt);   /* --opt name=value */

/* group: a unit of work claimed by exactly one worker; setup runs inside it.
 * returns 1 if this executor must run the group. */
int vh_group_begin(const char *fmt, ...) __attribute__((format(printf, 1, 2)));
void vh_group_end(void);
/* case: one explored state/execution. returns 1 if it must be executed. */
int vh_case_begin(const char *fmt, ...) __attribute__((format(printf, 1, 2)));
void vh_op(const char *op);           /* names the public call about to be made (crash attribution) */
void vh_transitions(long n);          /* API calls that are transitions */
void vh_nontrivial(void);             /* current case is non-trivial by the engine's rule */
void vh_count(const char *name, long n);   /* free-form extra counters (max 16 names) */
void vh_violation(const char *site, const char *fmt, ...) __attribute__((format(printf, 2, 3)));
#define VH_RSS_LIMIT_MB 1024              /* one forked execution of engine T stays below 100 MiB; 16 at this limit still fit the machine. A wild memory walk under ThreadSanitizer's shadow does not */
#define VH_EXECUTOR_RSS_LIMIT_MB 12288    /* backstop only: a long-lived AddressSanitizer executor legitimately holds 1-1.5 GiB (quarantine, shadow of everything it ever touched) */
long vh_rss_mb(pid_t pid);
int vh_wait_child(pid_t p, int *status);  /* waitpid that ends a child growing beyond VH_RSS_LIMIT_MB (then returns 1) */
long vh_violations(void);           /* violations reported so far by this worker */
void vh_note(const char *fmt, ...) __attribute__((format(printf, 1, 2)));
int vh_replaying(void);
void vh_quiet(int q);                 /* suppress violation reporting (redundant re-computations) */               /* --only given */
int vh_deadline_passed(void);

/* ---------- ledger (library allocations only, via --wrap) ---------- */
long ledger_count(void);
long ledger_bytes(void);
int ledger_has(const void *p);
long ledger_size_of(const void *p);   /* -1 if unknown */
void ledger_dump(char *buf, size_t n);/* short description of live blocks */
unsigned long ledger_mark(void);      /* monotonically increasing allocation serial */
long ledger_allocs_total(void);
void vh_lib_free(void *p);           /* release a block the library allocated and handed out */
extern int ledger_fail_after;         /* unused */
/* allocation-failure injection (engine M): only requests whose call site lies in the object containing `any_symbol_in_object` count */
void alloc_fault_scope(void *any_symbol_in_object);      /* NULL: injection and counting off */
extern long alloc_fail_at;            /* 1-based ordinal of the request to fail; 0 = none */
extern long alloc_fail_from;          /* every request from this ordinal on fails; 0 = none */
extern long alloc_seen, alloc_failed; /* requests seen in scope / made to fail since the engine last zeroed them */

/* ---------- guarded placement ---------- */
enum { GP_END = 0, GP_START16 = 1, GP_ODD = 2 };
typedef struct { void *map; size_t maplen; uint8_t *p; size_t len; } gbuf_t;
/* returns pointer to len bytes; GP_END: ends exactly at a PROT_NONE page; GP_START16: starts right after one,
 * GP_ODD: ends at guard page-... shifted so p%16==1 (end no longer abuts; an extra tail of 15 bytes max is poisoned by pattern) */
uint8_t *gbuf_alloc(gbuf_t *g, size_t len, int mode);
void gbuf_readonly(gbuf_t *g);
void gbuf_writable(gbuf_t *g);
void gbuf_free(gbuf_t *g);

/* ---------- syslog interposition ---------- */
extern long vh_syslog_calls;

/* ---------- misc ---------- */
uint64_t vh_hash(const void *p, size_t n);
void vh_fill(uint8_t *p, size_t n, int pattern);   /* content alphabet */
enum { PAT_RAMP = 0, PAT_IMPULSE_LAST = 1, PAT_ZERO = 2, PAT_ONES = 3, PAT_IMPULSE_FIRST = 4, PAT_MAGIC = 5, PAT_N = 6 };
extern const char *vh_pat_name[PAT_N];
#endif
