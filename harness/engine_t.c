/* Engine T — schedule explorer (DESIGN.md 3.T; property C18 and the thread half of C15).
 * Stateless depth-first enumeration of all interleavings of 2-3 real threads at the hooked
 * scheduling points, up to a preemption bound, each execution in a child forked from a
 * single-threaded process and monitored by AddressSanitizer or ThreadSanitizer. */
#include "vh.h"
#include "vsched.h"
#include "ref.h"
#include "erasurecode.h"
#include "erasurecode_backend.h"
#include <stdio.h>
#include <stdlib.h>
#include <string.h>
#include <unistd.h>
#include <fcntl.h>
#include <pthread.h>
#include <sys/mman.h>
#include <sys/wait.h>
#include <sys/resource.h>

extern int *log_table;
struct blist { struct ec_backend *slh_first; };
extern struct blist active_instances;
const char *vh_only_key(void);
void vh_scratch_path(char *buf, size_t n, const char *suffix);
void vh_classify_crash(const char *errfile, int sig, char *cls, size_t ncls, char *detail, size_t ndet);

/* ------------------------------------------------------------ thread bodies */
struct tres { uint64_t h; int descs[4]; int ndesc; int bad; char what[96]; };
static struct tres RES[SCHED_MAXT];
static int shared_desc, doomed_desc;

#define RS_ EC_BACKEND_LIBERASURECODE_RS_VAND
#define XR_ EC_BACKEND_FLAT_XOR_HD
static uint64_t mix(uint64_t h, const void *p, size_t n) { return h * 1099511628211ull ^ vh_hash(p, n); }
static int mk(int be, int k, int m, int hd)
{
    struct ec_args a; memset(&a, 0, sizeof a); a.k = k; a.m = m; a.hd = hd; a.ct = CHKSUM_CRC32;
    return liberasurecode_instance_create(be, &a);
}
/* encode, decode with fragment 0 missing, reconstruct the first parity; everything hashed */
static void use(struct tres *r, int desc, int k, int m, int wbytes, int strict)
{
    uint8_t data[64]; memset(data, 0x5a, sizeof data); size_t len = (size_t)(2 * k * wbytes + 3); vh_fill(data, len, PAT_RAMP);
    char **ed = NULL, **ep = NULL; uint64_t fl = 0;
    int rc = liberasurecode_encode(desc, (char *)data, len, &ed, &ep, &fl);
    r->h = mix(r->h, &rc, sizeof rc);
    if (rc) { r->bad = 1; snprintf(r->what, sizeof r->what, "encode returned %d", rc); return; }
    int n = k + m; char *F[16]; for (int i = 0; i < n; i++) { F[i] = i < k ? ed[i] : ep[i - k]; r->h = mix(r->h, F[i], fl); }
    char *out = NULL; uint64_t ol = 0;
    rc = liberasurecode_decode(desc, F + 1, n - 1, fl, 0, &out, &ol);
    r->h = mix(r->h, &rc, sizeof rc);
    if (rc == 0) { r->h = mix(r->h, out, ol); if (strict && (ol != len || memcmp(out, data, len))) { r->bad = 1; snprintf(r->what, sizeof r->what, "decode returned wrong data"); } liberasurecode_decode_cleanup(desc, out); }
    else { r->bad = 1; snprintf(r->what, sizeof r->what, "decode returned %d", rc); }
    char ob[256];
    char *lst[16]; int nf = 0; for (int i = 0; i < n; i++) if (i != k) lst[nf++] = F[i];
    rc = liberasurecode_reconstruct_fragment(desc, lst, nf, fl, k, ob);
    r->h = mix(r->h, &rc, sizeof rc);
    if (rc == 0) { r->h = mix(r->h, ob, fl); if (strict && memcmp(ob, F[k], fl)) { r->bad = 1; snprintf(r->what, sizeof r->what, "reconstruct returned wrong bytes"); } }
    else { r->bad = 1; snprintf(r->what, sizeof r->what, "reconstruct returned %d", rc); }
    int fs = liberasurecode_get_fragment_size(desc, 100); r->h = mix(r->h, &fs, sizeof fs);
    /* the availability query is a public entry point too: every back end id, answers hashed */
    { static const int ids[] = { EC_BACKEND_NULL, EC_BACKEND_FLAT_XOR_HD, EC_BACKEND_ISA_L_RS_VAND, EC_BACKEND_LIBERASURECODE_RS_VAND, EC_BACKEND_ISA_L_RS_CAUCHY, EC_BACKENDS_MAX };
      for (int q = 0; q < 6; q++) { int av = liberasurecode_backend_available((ec_backend_id_t)ids[q]); r->h = mix(r->h, &av, sizeof av); } }
    liberasurecode_encode_cleanup(desc, ed, ep);
}
/* the whole data plane on an instance that already exists: encode, decode from several erasure sets (fast path, one and
 * several data fragments missing, parity missing, unaligned and duplicated inputs, forced checks), reconstruct data and parity,
 * fragments_needed, metadata query (native and opposite-endian header), validation, stripe verification; everything hashed.
 * Threads running this on instances created before they started take only read locks, so no real synchronisation orders
 * them and ThreadSanitizer reports any state the data plane shares between calls. */
static void use_full(struct tres *r, int desc, int be, int k, int m, int hd, int wbytes)
{
    uint8_t data[256]; memset(data, 0x5a, sizeof data); size_t len = (size_t)(2 * k * wbytes + 3); vh_fill(data, len, PAT_RAMP);
    char **ed = NULL, **ep = NULL; uint64_t fl = 0;
    int tol = be == XR_ ? hd - 1 : m;
    int rc = liberasurecode_encode(desc, (char *)data, len, &ed, &ep, &fl);
    r->h = mix(r->h, &rc, sizeof rc);
    if (rc) { r->bad = 1; snprintf(r->what, sizeof r->what, "encode returned %d", rc); return; }
    int n = k + m; char *F[32]; for (int i = 0; i < n; i++) { F[i] = i < k ? ed[i] : ep[i - k]; r->h = mix(r->h, F[i], fl); }
    /* bit 31 stands for the first parity, bit 30 for the second; 0x7 on flat_xor_hd (6,6,4) is the one pattern that needs the
     * "P xor Q" scratch path of decode_three_data, 0xb takes its direct path */
    static const unsigned ES[] = { 0x0, 0x1, 0x3, 0x7, 0x2 | 1u << 31, 1u << 31, 0x5, 0xb, 0x1 | 3u << 30 };
    char *un[32]; for (int i = 0; i < n; i++) { un[i] = malloc(fl + 1); memcpy(un[i] + 1, F[i], fl); }
    for (unsigned e = 0; e < sizeof ES / sizeof ES[0]; e++) {
        unsigned E = (ES[e] & 0x3fffffffu) | ((ES[e] >> 31) << k) | ((ES[e] >> 30 & 1) << (k + 1));
        if (__builtin_popcount(E) > tol || (E >> n)) continue;
        char *lst[40]; int nf = 0; for (int i = 0; i < n; i++) if (!(E >> i & 1)) lst[nf++] = (e & 1) ? un[i] + 1 : F[i];
        if (e == 2 && nf) lst[nf++] = lst[0];
        char *out = NULL; uint64_t ol = 0;
        rc = liberasurecode_decode(desc, lst, nf, fl, e == 3 || e == 5, &out, &ol);
        r->h = mix(r->h, &rc, sizeof rc);
        if (rc == 0) { r->h = mix(r->h, out, ol); if (ol != len || memcmp(out, data, len)) { r->bad = 1; snprintf(r->what, sizeof r->what, "decode E=0x%x returned wrong data", E); } liberasurecode_decode_cleanup(desc, out); }
        else { r->bad = 1; snprintf(r->what, sizeof r->what, "decode E=0x%x returned %d", E, rc); }
        for (int t = 0; t < 2; t++) {
            int dest = t ? k : 0; char *ob = malloc(fl);
            rc = liberasurecode_reconstruct_fragment(desc, lst, nf, fl, dest, ob);
            r->h = mix(r->h, &rc, sizeof rc);
            if (rc == 0) { r->h = mix(r->h, ob, fl); if (memcmp(ob, F[dest], fl)) { r->bad = 1; snprintf(r->what, sizeof r->what, "reconstruct E=0x%x dest=%d returned wrong bytes", E, dest); } }
            else { r->bad = 1; snprintf(r->what, sizeof r->what, "reconstruct E=0x%x dest=%d returned %d", E, dest, rc); }
            free(ob);
        }
    }
    /* fragments_needed: every request over the first two data and the first parity, within tolerance */
    for (int R = 1; R < 8; R++) for (int X = 0; X < 8; X++) {
        if ((R & X) || __builtin_popcount((unsigned)(R | X)) > tol) continue;
        int rl[4], xl[4], nr = 0, nx = 0, N[40];
        for (int b = 0; b < 3; b++) { int idx = b == 2 ? k : b; if (idx >= n || (b == 1 && k < 2)) continue; if (R >> b & 1) rl[nr++] = idx; if (X >> b & 1) xl[nx++] = idx; }
        if (!nr) continue;
        rl[nr] = -1; xl[nx] = -1; memset(N, 0xff, sizeof N);
        rc = liberasurecode_fragments_needed(desc, rl, xl, N);
        r->h = mix(r->h, &rc, sizeof rc);
        if (rc == 0) { int c = 0; while (c < 39 && N[c] >= 0) c++; r->h = mix(r->h, N, sizeof(int) * (size_t)c); }
        else { r->bad = 1; snprintf(r->what, sizeof r->what, "fragments_needed R=%d X=%d returned %d", R, X, rc); }
    }
    /* metadata: native header, opposite-endian twin, damaged payload */
    for (int i = 0; i < n; i += (n > 4 ? n - 1 : 1)) {
        fragment_metadata_t md; memset(&md, 0, sizeof md);
        rc = liberasurecode_get_fragment_metadata(F[i], &md); r->h = mix(r->h, &rc, sizeof rc); r->h = mix(r->h, &md, sizeof md);
        if (rc || (int)md.idx != i || md.orig_data_size != len) { r->bad = 1; snprintf(r->what, sizeof r->what, "metadata of fragment %d: rc=%d idx=%u orig=%lu", i, rc, md.idx, (unsigned long)md.orig_data_size); }
        uint8_t *tw = malloc(fl); memcpy(tw, F[i], fl); wire_byteswap_twin(tw);
        memset(&md, 0, sizeof md);
        rc = liberasurecode_get_fragment_metadata((char *)tw, &md); r->h = mix(r->h, &rc, sizeof rc); r->h = mix(r->h, &md, sizeof md);
        if (rc || (int)md.idx != i || md.orig_data_size != len || md.chksum_mismatch) { r->bad = 1; snprintf(r->what, sizeof r->what, "metadata of the opposite-endian twin of fragment %d: rc=%d idx=%u orig=%lu mismatch=%d", i, rc, md.idx, (unsigned long)md.orig_data_size, md.chksum_mismatch); }
        memcpy(tw, F[i], fl); if (fl > 80) { tw[80] ^= 1; memset(&md, 0, sizeof md); rc = liberasurecode_get_fragment_metadata((char *)tw, &md); r->h = mix(r->h, &md, sizeof md);
            if (rc || !md.chksum_mismatch) { r->bad = 1; snprintf(r->what, sizeof r->what, "damaged payload of fragment %d not flagged (rc=%d mismatch=%d)", i, rc, md.chksum_mismatch); } }
        int iv = is_invalid_fragment(desc, F[i]); r->h = mix(r->h, &iv, sizeof iv);
        if (iv) { r->bad = 1; snprintf(r->what, sizeof r->what, "fresh fragment %d reported invalid", i); }
        free(tw);
    }
    rc = liberasurecode_verify_stripe_metadata(desc, F, n); r->h = mix(r->h, &rc, sizeof rc);
    if (rc) { r->bad = 1; snprintf(r->what, sizeof r->what, "verify_stripe_metadata on a fresh stripe returned %d", rc); }
    int q[3] = { liberasurecode_get_fragment_size(desc, 100), liberasurecode_get_aligned_data_size(desc, 100), liberasurecode_get_minimum_encode_size(desc) };
    r->h = mix(r->h, q, sizeof q);
    { static const int ids[] = { EC_BACKEND_NULL, EC_BACKEND_FLAT_XOR_HD, EC_BACKEND_ISA_L_RS_VAND, EC_BACKEND_LIBERASURECODE_RS_VAND, EC_BACKEND_ISA_L_RS_CAUCHY, EC_BACKENDS_MAX };
      for (int q = 0; q < 6; q++) { int av = liberasurecode_backend_available((ec_backend_id_t)ids[q]); r->h = mix(r->h, &av, sizeof av); } }
    for (int i = 0; i < n; i++) free(un[i]);
    liberasurecode_encode_cleanup(desc, ed, ep);
}
static int pre_desc[2];
/* one stripe encoded by main before the threads start; the threads decode and reconstruct from these very buffers (sharing inputs
 * read-only is what any caller may do), so a library write to an input fragment is a conflicting access */
static char **shared_ed, **shared_ep; static uint64_t shared_fl; static uint8_t shared_data[256]; static size_t shared_len;
static void use_shared(struct tres *r, int desc, int be, int k, int m, int hd)
{
    if (!shared_ed) return;
    int n = k + m, tol = be == XR_ ? hd - 1 : m; char *F[32]; for (int i = 0; i < n; i++) F[i] = i < k ? shared_ed[i] : shared_ep[i - k];
    static const unsigned ES[] = { 0x1, 0x7, 0xb, 0x3 };
    for (unsigned e = 0; e < 4; e++) {
        unsigned E = ES[e]; if (__builtin_popcount(E) > tol || (E >> k)) continue;
        char *lst[40]; int nf = 0; for (int i = 0; i < n; i++) if (!(E >> i & 1)) lst[nf++] = F[i];
        char *out = NULL; uint64_t ol = 0;
        int rc = liberasurecode_decode(desc, lst, nf, shared_fl, 0, &out, &ol);
        r->h = mix(r->h, &rc, sizeof rc);
        if (rc == 0) { r->h = mix(r->h, out, ol); if (ol != shared_len || memcmp(out, shared_data, shared_len)) { r->bad = 1; snprintf(r->what, sizeof r->what, "decode of the shared stripe E=0x%x returned wrong data", E); } liberasurecode_decode_cleanup(desc, out); }
        else { r->bad = 1; snprintf(r->what, sizeof r->what, "decode of the shared stripe E=0x%x returned %d", E, rc); }
        char *ob = malloc(shared_fl);
        rc = liberasurecode_reconstruct_fragment(desc, lst, nf, shared_fl, 0, ob);
        r->h = mix(r->h, &rc, sizeof rc);
        if (rc == 0) { if (memcmp(ob, F[0], shared_fl)) { r->bad = 1; snprintf(r->what, sizeof r->what, "reconstruct from the shared stripe E=0x%x returned wrong bytes", E); } }
        else { r->bad = 1; snprintf(r->what, sizeof r->what, "reconstruct from the shared stripe E=0x%x returned %d", E, rc); }
        free(ob);
    }
}
static void b_use_rs0(struct tres *r) { use_full(r, pre_desc[0], RS_, 3, 3, 3, 2); use_shared(r, pre_desc[0], RS_, 3, 3, 3); }
static void b_use_rs1(struct tres *r) { use_full(r, pre_desc[1], RS_, 3, 3, 3, 2); }
static void b_use_xor0(struct tres *r) { use_full(r, pre_desc[0], XR_, 6, 6, 4, 4); use_shared(r, pre_desc[0], XR_, 6, 6, 4); }
static void b_use_xor1(struct tres *r) { use_full(r, pre_desc[1], XR_, 6, 6, 4, 4); }
static void b_use_isa0(struct tres *r) { use_full(r, pre_desc[0], EC_BACKEND_ISA_L_RS_VAND, 3, 3, 3, 1); use_shared(r, pre_desc[0], EC_BACKEND_ISA_L_RS_VAND, 3, 3, 3); }
static void b_use_isa1(struct tres *r) { use_full(r, pre_desc[1], EC_BACKEND_ISA_L_RS_VAND, 3, 3, 3, 1); }
static void b_use_cau0(struct tres *r) { use_full(r, pre_desc[0], EC_BACKEND_ISA_L_RS_CAUCHY, 3, 3, 3, 1); }
static void own_cycle(struct tres *r, int be, int k, int m, int hd, int wbytes)
{
    int d = mk(be, k, m, hd);
    if (d <= 0) { r->bad = 1; snprintf(r->what, sizeof r->what, "create returned %d", d); return; }
    r->descs[r->ndesc++] = d;
    use(r, d, k, m, wbytes, be != EC_BACKEND_NULL);
    int rc = liberasurecode_instance_destroy(d);
    r->h = mix(r->h, &rc, sizeof rc);
    if (rc) { r->bad = 1; snprintf(r->what, sizeof r->what, "destroy returned %d", rc); }
}
#define RS EC_BACKEND_LIBERASURECODE_RS_VAND
#define XR EC_BACKEND_FLAT_XOR_HD
static void b_rs_cycle(struct tres *r) { own_cycle(r, RS, 2, 1, 1, 2); }
static void b_xor_cycle(struct tres *r) { own_cycle(r, XR, 3, 3, 3, 4); }
static void b_null_cycle(struct tres *r) { own_cycle(r, EC_BACKEND_NULL, 2, 1, 1, 4); }
static void b_isa_cycle(struct tres *r) { own_cycle(r, EC_BACKEND_ISA_L_RS_VAND, 2, 2, 2, 1); }
static void b_shared_user(struct tres *r) { use(r, shared_desc, 2, 1, 2, 1); }
static void b_destroy_doomed(struct tres *r) { int rc = liberasurecode_instance_destroy(doomed_desc); r->h = mix(r->h, &rc, sizeof rc); if (rc) { r->bad = 1; snprintf(r->what, sizeof r->what, "destroy returned %d", rc); } }
static void b_create_only(struct tres *r)
{   /* create and keep (destroyed by main after the join): concurrent creates must all yield usable, distinct descriptors */
    int d = mk(RS, 2, 1, 1); if (d <= 0) { r->bad = 1; snprintf(r->what, sizeof r->what, "create returned %d", d); return; }
    r->descs[r->ndesc++] = d; use(r, d, 2, 1, 2, 1);
}

struct driver { const char *name; int nthreads; void (*body[SCHED_MAXT])(struct tres *); int pre_shared, pre_doomed, post_destroy_kept;
                int pre_be, pre_k, pre_m, pre_hd, pre_two; };   /* pre_be != 0: main creates one (pre_two: two) instance(s) of that shape before the threads start and destroys them after the join */
static const struct driver DRV[] = {
    { "W1", 2, { b_rs_cycle, b_rs_cycle }, 0, 0, 0 },
    { "W2", 2, { b_shared_user, b_xor_cycle }, 1, 0, 0 },
    { "W4", 2, { b_destroy_doomed, b_rs_cycle }, 0, 1, 0 },
    { "W5", 2, { b_create_only, b_create_only }, 0, 0, 1 },
    { "W6", 2, { b_xor_cycle, b_xor_cycle }, 0, 0, 0 },
    { "W7", 2, { b_isa_cycle, b_isa_cycle }, 0, 0, 0 },
    { "W2b", 2, { b_shared_user, b_rs_cycle }, 1, 0, 0 },
    { "W3", 3, { b_rs_cycle, b_xor_cycle, b_null_cycle }, 0, 0, 0 },
    { "W2+", 3, { b_shared_user, b_shared_user, b_xor_cycle }, 1, 0, 0 },
    { "W1x3", 3, { b_rs_cycle, b_rs_cycle, b_rs_cycle }, 0, 0, 0 },
    /* data plane only, on instances that exist before the threads start (index 10..): same descriptor / one descriptor each */
    { "Urs", 2, { b_use_rs0, b_use_rs0 }, 0, 0, 0, RS_, 3, 3, 3, 0 },
    { "Uxor", 2, { b_use_xor0, b_use_xor0 }, 0, 0, 0, XR_, 6, 6, 4, 0 },
    { "Uisa", 2, { b_use_isa0, b_use_isa0 }, 0, 0, 0, EC_BACKEND_ISA_L_RS_VAND, 3, 3, 3, 0 },
    { "Urs2", 2, { b_use_rs0, b_use_rs1 }, 0, 0, 0, RS_, 3, 3, 3, 1 },
    { "Uxor2", 2, { b_use_xor0, b_use_xor1 }, 0, 0, 0, XR_, 6, 6, 4, 1 },
    { "Uisa2", 2, { b_use_isa0, b_use_isa1 }, 0, 0, 0, EC_BACKEND_ISA_L_RS_VAND, 3, 3, 3, 1 },
    { "Ucau", 2, { b_use_cau0, b_use_cau0 }, 0, 0, 0, EC_BACKEND_ISA_L_RS_CAUCHY, 3, 3, 3, 0 },
    { "Urs+cycle", 2, { b_use_rs0, b_rs_cycle }, 0, 0, 0, RS_, 3, 3, 3, 0 },
    /* four threads (index 18): life cycles of three back ends at once, two of them rs_vand */
    { "W4x", 4, { b_rs_cycle, b_xor_cycle, b_isa_cycle, b_rs_cycle }, 0, 0, 0 },
};
#define NDRV ((int)(sizeof DRV / sizeof DRV[0]))

struct targ { const struct driver *d; int tid; };
static void *thread_main(void *p)
{
    struct targ *a = p;
    sched_thread_begin(a->tid);
    a->d->body[a->tid](&RES[a->tid]);
    sched_thread_end(a->tid);
    return NULL;
}

/* one complete execution, in the (forked) calling process */
static void run_once(const struct driver *d, struct sched_trace *tr, const unsigned char *prefix, int nprefix)
{
    long c0 = ledger_count(), b0 = ledger_bytes();
    memset(RES, 0, sizeof RES);
    if (d->pre_shared) shared_desc = mk(RS, 2, 1, 1);
    if (d->pre_doomed) doomed_desc = mk(RS, 2, 1, 1);
    if (d->pre_be) for (int i = 0; i <= d->pre_two; i++) { pre_desc[i] = mk(d->pre_be, d->pre_k, d->pre_m, d->pre_hd); if (pre_desc[i] <= 0) { fprintf(stderr, "driver %s: cannot create its instance\n", d->name); _exit(2); } }
    shared_ed = shared_ep = NULL;
    if (d->pre_be && !d->pre_two) {
        int wb = d->pre_be == RS_ ? 2 : d->pre_be == XR_ ? 4 : 1; shared_len = (size_t)(2 * d->pre_k * wb + 5); memset(shared_data, 0x5a, sizeof shared_data); vh_fill(shared_data, shared_len, PAT_RAMP);
        if (liberasurecode_encode(pre_desc[0], (char *)shared_data, shared_len, &shared_ed, &shared_ep, &shared_fl)) { fprintf(stderr, "driver %s: cannot encode the shared stripe\n", d->name); _exit(2); }
    }
    sched_resolve_locks();
    sched_init(tr, prefix, nprefix, d->nthreads);
    pthread_t th[SCHED_MAXT]; struct targ ta[SCHED_MAXT];
    for (int i = 0; i < d->nthreads; i++) { ta[i].d = d; ta[i].tid = i; RES[i].h = 1469598103934665603ull; pthread_create(&th[i], NULL, thread_main, &ta[i]); }
    sched_run_all();
    for (int i = 0; i < d->nthreads; i++) pthread_join(th[i], NULL);
    /* oracle on this execution (outputs are compared with the sequential run by the explorer) */
    uint64_t oh = 7;
    for (int i = 0; i < d->nthreads; i++) {
        if (RES[i].bad) vh_violation("result-differs-from-sequential", "thread %d: %s", i, RES[i].what);
        oh = mix(oh, &RES[i].h, sizeof RES[i].h);
        for (int j = 0; j < RES[i].ndesc; j++) for (int i2 = 0; i2 < i; i2++) for (int j2 = 0; j2 < RES[i2].ndesc; j2++)
            if (d->post_destroy_kept && RES[i].descs[j] == RES[i2].descs[j2]) vh_violation("descriptor-not-unique", "threads %d and %d both obtained descriptor %d from concurrent creates", i2, i, RES[i].descs[j]);
    }
    if (d->post_destroy_kept) for (int i = 0; i < d->nthreads; i++) for (int j = 0; j < RES[i].ndesc; j++) { int rc = liberasurecode_instance_destroy(RES[i].descs[j]); if (rc) vh_violation("result-differs-from-sequential", "destroy of descriptor %d after the join returned %d", RES[i].descs[j], rc); }
    if (d->pre_shared) { struct tres r; memset(&r, 0, sizeof r); use(&r, shared_desc, 2, 1, 2, 1); if (r.bad) vh_violation("result-differs-from-sequential", "shared instance after the join: %s", r.what); liberasurecode_instance_destroy(shared_desc); }
    if (shared_ed) { liberasurecode_encode_cleanup(pre_desc[0], shared_ed, shared_ep); shared_ed = shared_ep = NULL; }
    if (d->pre_be) for (int i = 0; i <= d->pre_two; i++) { int rc = liberasurecode_instance_destroy(pre_desc[i]); if (rc) vh_violation("result-differs-from-sequential", "destroy of the pre-created instance after the join returned %d", rc); }
    if (active_instances.slh_first) vh_violation("registry-not-empty", "registry not empty after every instance was destroyed");
    if (log_table) vh_violation("tables-not-released", "GF tables still allocated after the last instance was destroyed");
    if (ledger_count() != c0 || ledger_bytes() != b0) { char dd[160]; ledger_dump(dd, sizeof dd); vh_violation("leak", "%ld blocks / %ld bytes still allocated at the end (live sizes %s)", ledger_count() - c0, ledger_bytes() - b0, dd); }
    tr->outcome_hash = oh; tr->finished = 1;
}

/* ------------------------------------------------------------ explorer */
static struct sched_trace *SHTR;     /* MAP_SHARED: written by the child */
static int BOUND, violating_execs, MAXBAD = 6;
static long n_exec;
static uint64_t golden_outcome; static int have_golden;
static const struct driver *CUR;
static char errfile[1024];

static void rle(const unsigned char *c, int n, char *buf, size_t nb)
{
    while (n > 0 && c[n - 1] == 0) n--;
    size_t o = 0; buf[0] = 0;
    for (int i = 0; i < n;) { int j = i; while (j < n && c[j] == c[i]) j++; o += (size_t)snprintf(buf + o, nb - o, (j - i > 1) ? "%s%d*%d" : "%s%d", i ? "," : "", c[i], j - i); i = j; if (o + 16 > nb) break; }
    if (!buf[0]) snprintf(buf, nb, "-");
}
static int unrle(const char *s, unsigned char *c, int max)
{
    int n = 0; if (!strcmp(s, "-")) return 0;
    while (*s && n < max) { int v = (int)strtol(s, (char **)&s, 10), cnt = 1; if (*s == '*') cnt = (int)strtol(s + 1, (char **)&s, 10); while (cnt-- > 0 && n < max) c[n++] = (unsigned char)v; if (*s == ',') s++; }
    return n;
}

/* returns 0 when the execution completed normally (trace in *out) */
static int execute(const unsigned char *prefix, int nprefix, struct sched_trace *out)
{
    memset(SHTR, 0, sizeof(int) * 8);
    SHTR->finished = 0;
    fflush(NULL);
    pid_t p = fork();
    if (p == 0) {
        int fd = open(errfile, O_WRONLY | O_CREAT | O_TRUNC, 0644); if (fd >= 0) { dup2(fd, 2); close(fd); }
        run_once(CUR, SHTR, prefix, nprefix);
        _exit(0);
    }
    int st; int bloated = vh_wait_child(p, &st);
    n_exec++; vh_transitions(SHTR->npoints);
    memcpy(out, SHTR, sizeof *out);
    if (SHTR->switches) vh_nontrivial();
    int bad = 0;
    /* ThreadSanitizer keeps going after a report (and then exits with 66): look at what the execution printed first */
    {
        FILE *f = fopen(errfile, "r");
        if (f) {
            static char buf[65536]; size_t n = fread(buf, 1, sizeof buf - 1, f); buf[n] = 0; fclose(f);
            char *w = strstr(buf, "WARNING: ThreadSanitizer:");
            if (w) {
                char kind[64] = "race", fn[96] = "?";
                char *su = strstr(w, "SUMMARY: ThreadSanitizer: ");
                if (su) {
                    su += 26; size_t i = 0; while (su[i] && su[i] != '/' && su[i] != '(' && su[i] != '\n' && i < 63) { kind[i] = su[i] == ' ' ? '-' : su[i]; i++; } kind[i] = 0;
                    while (i && kind[i - 1] == '-') kind[--i] = 0;
                    char *in = strstr(su, " in "); if (in) sscanf(in + 4, "%95s", fn);
                }
                char site[200]; snprintf(site, sizeof site, "tsan-%s:%s", kind, fn);
                char det[1500]; size_t o = 0; for (char *q = w; *q && o + 2 < sizeof det && o < 1400; q++) det[o++] = (*q == '\n' || *q == '\t') ? ' ' : *q; det[o] = 0;
                vh_violation(site, "%s", det); bad = 1;
            }
        }
    }
    if (bad) { }
    else if (bloated) { vh_violation("memory-runaway", "the execution grew beyond %d MiB resident (a wild walk through memory under the sanitizer's shadow) and was ended", VH_RSS_LIMIT_MB); bad = 1; }
    else if (WIFEXITED(st) && WEXITSTATUS(st) == 70) { vh_violation("deadlock", "no thread can run: every unfinished thread waits for a lock (after %d scheduling points)", SHTR->npoints); bad = 1; }
    else if (WIFEXITED(st) && (WEXITSTATUS(st) == 71 || WEXITSTATUS(st) == 72 || WEXITSTATUS(st) == 73 || WEXITSTATUS(st) == 74)) { fprintf(stderr, "scheduler error %d (divergence/overflow) replaying a prefix of %d choices\n", WEXITSTATUS(st), nprefix); exit(2); }
    else if (WIFSIGNALED(st) || (WIFEXITED(st) && WEXITSTATUS(st))) {
        char cls[96], det[1600]; vh_classify_crash(errfile, WIFSIGNALED(st) ? WTERMSIG(st) : 0, cls, sizeof cls, det, sizeof det);
        vh_violation(cls, "%s", det); bad = 1;
    } else {
        if (!SHTR->finished) { vh_violation("incomplete", "execution ended without completing its checks"); bad = 1; }
        else if (have_golden && SHTR->outcome_hash != golden_outcome) { vh_violation("result-differs-from-sequential", "per-thread results (return codes and output bytes) differ from the sequential execution"); bad = 1; }
    }
    if (bad) violating_execs++;
    return bad;
}

static void explore(const unsigned char *prefix, int nprefix, int cost)
{
    if (violating_execs >= MAXBAD || vh_deadline_passed()) { if (vh_deadline_passed()) vh_count("subtrees_cut_by_deadline", 1); return; }
    char r[1200]; rle(prefix, nprefix, r, sizeof r);
    struct sched_trace *tr = malloc(sizeof *tr);
    if (vh_case_begin("p%d/%s", cost, r)) {
        vh_op(CUR->name);
        int bad = execute(prefix, nprefix, tr);
        if (!bad) {
            unsigned char *np = malloc(SCHED_MAXPOINTS);
            int c = 0;   /* preemptions before point i */
            for (int i = 0; i < tr->npoints; i++) {
                if (i >= nprefix) {
                    for (int alt = 1; alt < tr->pt[i].nen; alt++) {
                        int c2 = c + (tr->pt[i].cur_en ? 1 : 0);
                        if (c2 > BOUND) continue;
                        for (int j = 0; j < i; j++) np[j] = tr->pt[j].chosen;
                        np[i] = (unsigned char)alt;
                        explore(np, i + 1, c2);
                    }
                }
                if (tr->pt[i].chosen && tr->pt[i].cur_en) c++;
            }
            free(np);
        }
    }
    free(tr);
}

static void engine(void)
{
    if (ref_init()) exit(2);
    SHTR = mmap(NULL, sizeof *SHTR, PROT_READ | PROT_WRITE, MAP_SHARED | MAP_ANONYMOUS, -1, 0);
    vh_scratch_path(errfile, sizeof errfile, "exec.err");
    BOUND = (int)vh_opt("bound", 2);
    int bound3 = (int)vh_opt("bound3", BOUND > 1 ? BOUND - 1 : BOUND);   /* three-thread drivers */
    int ndrv = (int)vh_opt("drivers", 4);
    const char *mon = vh_plan();      /* "asan" or "tsan": names the monitor, part of the key */
    if (vh_replaying()) {
        /* key: T/<mon>/<driver>/<group>/p<c>/<choices>  — run exactly that schedule, twice, and require identical traces */
        char key[1400]; snprintf(key, sizeof key, "%s", vh_only_key());
        char *parts[6]; int np = 0; for (char *q = strtok(key, "/"); q && np < 6; q = strtok(NULL, "/")) parts[np++] = q;
        if (np < 6) { fprintf(stderr, "bad replay key\n"); exit(2); }
        for (int i = 0; i < NDRV; i++) if (!strcmp(DRV[i].name, parts[2])) CUR = &DRV[i];
        if (!CUR) { fprintf(stderr, "unknown driver\n"); exit(2); }
        unsigned char pf[SCHED_MAXPOINTS]; int n = unrle(parts[5], pf, SCHED_MAXPOINTS);
        if (!vh_group_begin("T/%s/%s/%s", parts[1], parts[2], parts[3])) { fprintf(stderr, "replay key does not match\n"); exit(2); }
        struct sched_trace a, b;
        if (vh_case_begin("%s/%s", parts[4], parts[5])) {
            vh_op(CUR->name); MAXBAD = 1000; execute(pf, n, &a); execute(pf, n, &b);
            if (a.npoints != b.npoints || memcmp(a.pt, b.pt, sizeof(struct sched_point) * (size_t)a.npoints)) { fprintf(stderr, "replaying the same schedule twice gave different traces\n"); exit(2); }
        }
        vh_group_end();
        return;
    }
    long drvmask = vh_opt("drvmask", 0);          /* bit i selects DRV[i]; 0: the first `drivers` entries */
    for (int di = 0; di < NDRV; di++) {
        if (drvmask ? !(drvmask >> di & 1) : di >= ndrv) continue;
        CUR = &DRV[di]; BOUND = CUR->nthreads > 3 ? (int)vh_opt("bound4", 1) : CUR->nthreads > 2 ? bound3 : (int)vh_opt("bound", 2);
        vh_op(CUR->name);
        violating_execs = 0; have_golden = 0;
        /* the root execution (no deviation) is the sequential run: thread 0 to completion, then thread 1, ... */
        struct sched_trace *root = malloc(sizeof *root);
        int rootbad;
        if (vh_group_begin("T/%s/%s/root", mon, CUR->name)) {
            rootbad = 1;
            if (vh_case_begin("p0/-")) { vh_op(CUR->name); rootbad = execute(NULL, 0, root); }
            vh_group_end();
        } else {
            /* not ours to report, but every executor needs the trace to enumerate the first-level deviations */
            long sv = violating_execs; int fdnull = 0; (void)fdnull;
            memset(SHTR, 0, sizeof(int) * 8); fflush(NULL);
            pid_t p = fork();
            if (p == 0) { int fd = open("/dev/null", O_WRONLY); if (fd >= 0) { dup2(fd, 2); } vh_quiet(1); run_once(CUR, SHTR, NULL, 0); _exit(0); }
            int st; int bloated = vh_wait_child(p, &st); memcpy(root, SHTR, sizeof *root);
            rootbad = bloated || !(WIFEXITED(st) && WEXITSTATUS(st) == 0 && root->finished); violating_execs = (int)sv;
        }
        if (rootbad) { free(root); continue; }     /* the sequential run itself fails: reported by the root group's owner */
        golden_outcome = root->outcome_hash; have_golden = 1;
        unsigned char *np = malloc(SCHED_MAXPOINTS);
        for (int i = 0; i < root->npoints; i++) for (int alt = 1; alt < root->pt[i].nen; alt++) {
            int c2 = root->pt[i].cur_en ? 1 : 0;
            if (c2 > BOUND) continue;
            if (!vh_group_begin("T/%s/%s/d%d.%d", mon, CUR->name, i, alt)) continue;
            violating_execs = 0;
            for (int j = 0; j < i; j++) np[j] = root->pt[j].chosen;
            np[i] = (unsigned char)alt;
            explore(np, i + 1, c2);
            vh_group_end();
        }
        free(np); free(root);
    }
    vh_count("executions", n_exec);
}
int main(int argc, char **argv) { return vh_main(argc, argv, engine); }
