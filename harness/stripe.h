/* Shared by the engines that work on encoded stripes: shapes, instance creation, stripe set-up with
 * guarded placements, and the reference encoder. Included (not linked) so each engine stays one TU. */
#ifndef STRIPE_H
#define STRIPE_H
#include "vh.h"
#include "tap.h"
#include "ref.h"
#include "erasurecode.h"
#include "erasurecode_backend.h"
#include "erasurecode_helpers.h"
#include <stdio.h>
#include <stdlib.h>
#include <string.h>

/* ------------------------------------------------------------------ shapes */
struct shape { int be, k, m, hd; int wv; };   /* wv: caller-supplied ec_args.w variant; 0 = the harness default (16 for rs_vand as the repository's tests pass it, unset otherwise) */
#define WV_UNSET (-1)                          /* pass w = 0 (unset) explicitly */
static const char *wtag(const struct shape *s)
{
    static char b[4][16]; static int r; if (!s->wv) return "";
    char *o = b[r++ & 3]; if (s->wv == WV_UNSET) snprintf(o, 16, "/w-unset"); else snprintf(o, 16, "/w%d", s->wv); return o;
}
/* w values a caller may pass that the backend is documented to ignore (it stores its own word size back): the stripe must not depend on them */
static int w_variants(int be, int *out)
{
    if (be == EC_BACKEND_LIBERASURECODE_RS_VAND) { out[0] = WV_UNSET; out[1] = 8; out[2] = 32; out[3] = 64; return 4; }
    if (be == EC_BACKEND_FLAT_XOR_HD) { out[0] = 8; out[1] = 16; out[2] = 64; return 3; }
    if (be == EC_BACKEND_NULL) { out[0] = 8; out[1] = 16; return 2; }      /* the null back end validates w (8, 16, 32) but sizes everything by 32 */
    return 0;
}
static const char *be_name(int be)
{
    switch (be) {
    case EC_BACKEND_LIBERASURECODE_RS_VAND: return "rs_vand";
    case EC_BACKEND_FLAT_XOR_HD: return "flat_xor_hd";
    case EC_BACKEND_ISA_L_RS_VAND: return "isa_l_rs_vand";
    case EC_BACKEND_ISA_L_RS_CAUCHY: return "isa_l_rs_cauchy";
    case EC_BACKEND_NULL: return "null";
    }
    return "other";
}
static int word_bytes(int be)
{
    switch (be) {
    case EC_BACKEND_LIBERASURECODE_RS_VAND: return 2;
    case EC_BACKEND_ISA_L_RS_VAND: case EC_BACKEND_ISA_L_RS_CAUCHY: return 1;
    default: return 4;
    }
}
static uint32_t golden_backend_version(int be)
{
    switch (be) {
    case EC_BACKEND_ISA_L_RS_VAND: return 2u << 16 | 13u << 8;
    case EC_BACKEND_ISA_L_RS_CAUCHY: return 2u << 16 | 14u << 8 | 1;
    default: return 1u << 16;
    }
}
static int is_isa(int be) { return be == EC_BACKEND_ISA_L_RS_VAND || be == EC_BACKEND_ISA_L_RS_CAUCHY; }
static int is_xor(int be) { return be == EC_BACKEND_FLAT_XOR_HD; }

static int shapes_with_m0;     /* set by the plans that also take the m = 0 shapes */
/* all (k,m), k,m>=1, k+m<=nmax, simplest first (by n then k) */
static int shapes_km(struct shape *out, int be, int nmax)
{
    int c = 0;
    for (int n = 2; n <= nmax; n++) for (int k = 1; k < n; k++) { out[c].be = be; out[c].k = k; out[c].m = n - k; out[c].hd = n - k; out[c].wv = 0; c++; }
    /* m = 0 is accepted by create as well (no parity, nothing tolerated): k = 1..nmax */
    if (shapes_with_m0) for (int k = 1; k <= nmax; k++) { out[c].be = be; out[c].k = k; out[c].m = 0; out[c].hd = 0; out[c].wv = 0; c++; }
    return c;
}
static int shapes_xor(struct shape *out)
{
    int c = 0;
    /* simplest first: by n */
    for (int n = 6; n <= 26; n++)
        for (int i = 0; i < xor_golden_count(); i++) {
            struct xor_shape s = xor_golden_get(i);
            if (s.k + s.m != n) continue;
            out[c].be = EC_BACKEND_FLAT_XOR_HD; out[c].k = s.k; out[c].m = s.m; out[c].hd = s.hd; out[c].wv = 0; c++;
        }
    return c;
}
static int named_shape(const struct shape *s)
{
    static const int rs[][2] = { {31,1},{1,31},{16,16},{10,4},{20,12} };
    static const int xr[][3] = { {20,6,4},{15,6,3},{3,3,3} };
    if (is_xor(s->be)) { for (int i = 0; i < 3; i++) if (xr[i][0] == s->k && xr[i][1] == s->m && xr[i][2] == s->hd) return 1; return 0; }
    for (int i = 0; i < 5; i++) if (rs[i][0] == s->k && rs[i][1] == s->m) return 1;
    return 0;
}

/* ------------------------------------------------------------------ stripe */
struct stripe {
    struct shape sh; int ct, pat, n; uint64_t len; const char *env;
    int desc;
    gbuf_t gdata; uint8_t *data;
    char **ed, **ep; uint64_t flen;          /* encode's own outputs */
    gbuf_t gfrag[3][32]; uint8_t *frag[3][32];
    gbuf_t gptr; gbuf_t gout; gbuf_t gidx;
    uint16_t *refG16; uint8_t *refG8; const unsigned *xorp;
    long base_count, base_bytes;
    int companion[2];                        /* other live instances of the same back end (one created before, one after) */
};
static struct shape stripe_companion;        /* be != 0: stripe_open surrounds the instance under test with companions of this shape */
static char GK[320];

static void set_env(const char *env)
{
    if (env) setenv("LIBERASURECODE_WRITE_LEGACY_CRC", env, 1); else unsetenv("LIBERASURECODE_WRITE_LEGACY_CRC");
}
static int env_is_legacy(const char *e) { return e && !(e[0] == 0 || (e[0] == '0' && e[1] == 0)); }

static int create_instance(const struct shape *sh, int ct)
{
    struct ec_args a; memset(&a, 0, sizeof a);
    a.k = sh->k; a.m = sh->m; a.hd = sh->hd; a.ct = ct; a.w = 0;
    if (sh->be == EC_BACKEND_LIBERASURECODE_RS_VAND) a.w = 16;
    if (sh->wv) a.w = sh->wv == WV_UNSET ? 0 : sh->wv;
    return liberasurecode_instance_create(sh->be, &a);
}

/* returns 0 ok; <0 when create/encode fail (violation already reported if report!=0) */
static int stripe_open(struct stripe *s, struct shape sh, int ct, uint64_t len, int pat, const char *env)
{
    memset(s, 0, sizeof *s);
    s->sh = sh; s->ct = ct; s->len = len; s->pat = pat; s->n = sh.k + sh.m; s->env = env;
    set_env(env);
    s->base_count = ledger_count(); s->base_bytes = ledger_bytes();
    if (stripe_companion.k) { s->companion[0] = create_instance(&stripe_companion, ct); if (s->companion[0] <= 0) vh_violation("create-refused", "companion create(%s,k=%d,m=%d,hd=%d) returned %d", be_name(stripe_companion.be), stripe_companion.k, stripe_companion.m, stripe_companion.hd, s->companion[0]); }
    vh_op("liberasurecode_instance_create"); vh_transitions(1);
    s->desc = create_instance(&sh, ct);
    if (s->desc <= 0) { vh_violation("create-refused", "create(%s,k=%d,m=%d,hd=%d) returned %d", be_name(sh.be), sh.k, sh.m, sh.hd, s->desc); return -1; }
    if (stripe_companion.k && s->desc > 0) { s->companion[1] = create_instance(&stripe_companion, ct); if (s->companion[1] <= 0) vh_violation("create-refused", "companion create after the instance under test returned %d", s->companion[1]); }
    tap_install(s->desc);
    s->data = gbuf_alloc(&s->gdata, len, GP_END);
    vh_fill(s->data, len, pat);
    gbuf_readonly(&s->gdata);
    char opn[96]; snprintf(opn, sizeof opn, "liberasurecode_encode:%s", be_name(sh.be));
    vh_op(opn); vh_transitions(1);
    int rc = liberasurecode_encode(s->desc, (char *)s->data, len, &s->ed, &s->ep, &s->flen);
    if (rc != 0) { vh_violation("encode-failed", "encode len=%lu returned %d", (unsigned long)len, rc); s->ed = s->ep = NULL; return -2; }
    gbuf_alloc(&s->gptr, 64 * sizeof(char *), GP_END);
    gbuf_alloc(&s->gidx, 2 * 40 * sizeof(int), GP_END);
    gbuf_alloc(&s->gout, s->flen > 64 * sizeof(int) ? s->flen : 64 * sizeof(int), GP_END);
    if (is_xor(sh.be)) s->xorp = xor_golden_find(sh.k, sh.m, sh.hd);
    return 0;
}
static char *enc_frag(struct stripe *s, int i) { return i < s->sh.k ? s->ed[i] : s->ep[i - s->sh.k]; }
static uint8_t *frag_at(struct stripe *s, int place, int i)
{
    if (!s->frag[place][i]) {
        uint8_t *p = gbuf_alloc(&s->gfrag[place][i], s->flen, place);
        memcpy(p, enc_frag(s, i), s->flen);
        gbuf_readonly(&s->gfrag[place][i]);
        s->frag[place][i] = p;
    }
    return s->frag[place][i];
}
static void stripe_close(struct stripe *s, int check_ledger)
{
    for (int c = 0; c < 2; c++) if (s->companion[c] > 0) { liberasurecode_instance_destroy(s->companion[c]); s->companion[c] = 0; }
    if (s->desc > 0) {
        if (s->ed) { vh_op("liberasurecode_encode_cleanup"); vh_transitions(1); liberasurecode_encode_cleanup(s->desc, s->ed, s->ep); }
        if (check_ledger) {
            /* everything except the instance itself must be gone */
        }
        vh_op("liberasurecode_instance_destroy"); vh_transitions(1);
        int rc = liberasurecode_instance_destroy(s->desc);
        if (rc != 0 && check_ledger) vh_violation("destroy-failed", "destroy returned %d", rc);
        if (check_ledger && (ledger_count() != s->base_count || ledger_bytes() != s->base_bytes)) {
            char d[256]; ledger_dump(d, sizeof d);
            vh_violation("leak", "after cleanup+destroy %ld blocks / %ld bytes remain allocated by the library (sizes: %s)",
                         ledger_count() - s->base_count, ledger_bytes() - s->base_bytes, d);
        }
    }
    for (int p = 0; p < 3; p++) for (int i = 0; i < 32; i++) gbuf_free(&s->gfrag[p][i]);
    gbuf_free(&s->gdata); gbuf_free(&s->gptr); gbuf_free(&s->gout); gbuf_free(&s->gidx);
    free(s->refG16); free(s->refG8);
    set_env(NULL);
}

/* ------------------------------------------------------------------ reference encode */
static uint64_t ref_aligned(int be, int k, uint64_t len)
{
    uint64_t a = (uint64_t)k * word_bytes(be);
    return (len + a - 1) / a * a;
}
static void ref_matrix_isa(struct stripe *s)
{
    if (s->refG8) return;
    s->refG8 = malloc((size_t)s->n * s->sh.k);
    if (s->sh.be == EC_BACKEND_ISA_L_RS_VAND) gf8_gen_rs_matrix(s->refG8, s->n, s->sh.k);
    else gf8_gen_cauchy1_matrix(s->refG8, s->n, s->sh.k);
}
/* writes the expected payload of fragment i into out (bs bytes) */
static void ref_payload(struct stripe *s, int i, uint8_t *out, uint32_t bs)
{
    int k = s->sh.k;
    memset(out, 0, bs);
    if (i < k) {
        uint64_t off = (uint64_t)i * bs;
        if (off < s->len) { uint64_t c = s->len - off; if (c > bs) c = bs; memcpy(out, s->data + off, c); }
        return;
    }
    uint8_t *tmp = malloc(bs ? bs : 1);
    for (int j = 0; j < k; j++) {
        ref_payload(s, j, tmp, bs);
        if (is_xor(s->sh.be)) {
            if (s->xorp[i - k] >> j & 1) for (uint32_t b = 0; b < bs; b++) out[b] ^= tmp[b];
        } else if (is_isa(s->sh.be)) {
            ref_matrix_isa(s);
            uint8_t c = s->refG8[i * k + j];
            for (uint32_t b = 0; b < bs; b++) out[b] ^= gf8_mul(c, tmp[b]);
        } else if (s->sh.be == EC_BACKEND_LIBERASURECODE_RS_VAND) {
            if (!s->refG16) { s->refG16 = malloc(sizeof(uint16_t) * (size_t)s->n * k); gf16_generator(k, s->sh.m, s->refG16); }
            uint16_t c = s->refG16[i * k + j];
            for (uint32_t b = 0; b + 1 < bs; b += 2) {
                uint16_t w = (uint16_t)(tmp[b] | tmp[b + 1] << 8);
                uint16_t r = gf16_mul(c, w);
                out[b] ^= (uint8_t)r; out[b + 1] ^= (uint8_t)(r >> 8);
            }
        }
    }
    free(tmp);
}
static void ref_fragment(struct stripe *s, int i, uint8_t *out /* flen bytes */, uint32_t bs)
{
    ref_payload(s, i, out + WIRE_HDR, bs);
    struct wire_fields f; memset(&f, 0, sizeof f);
    f.idx = (uint32_t)i; f.size = bs; f.bmsize = 0; f.orig = s->len; f.ct = (uint8_t)s->ct;
    if (s->ct == CHKSUM_CRC32) f.chksum0 = env_is_legacy(s->env) ? crc_legacy(out + WIRE_HDR, bs) : crc_std(out + WIRE_HDR, bs);
    f.backend_id = (uint8_t)s->sh.be; f.backend_version = golden_backend_version(s->sh.be);
    f.magic = WIRE_MAGIC; f.libec_version = liberasurecode_get_version();
    wire_put(out, &f); wire_seal(out, env_is_legacy(s->env));
}
static void first_diff(const uint8_t *a, const uint8_t *b, size_t n, char *buf, size_t nb)
{
    for (size_t i = 0; i < n; i++) if (a[i] != b[i]) { snprintf(buf, nb, "first difference at byte %zu: got 0x%02x expected 0x%02x", i, a[i], b[i]); return; }
    snprintf(buf, nb, "no difference");
}

extern void init_liberasurecode_rs_vand(int k, int m);
static void init_liberasurecode_rs_vand_pin(void) { if (vh_opt("pin_tables", 1)) init_liberasurecode_rs_vand(1, 1); }
#endif
