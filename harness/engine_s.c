/* Engine S — stripe explorer (DESIGN.md 3.S).
 * Exhaustively enumerates (shape, length, content, checksum type, erasure set,
 * presentation, destination / request) tuples from explicit finite alphabets
 * and runs every one of them through the real library. */
#include "vh.h"
#include "tap.h"
#include "ref.h"
#include "erasurecode.h"
#include "erasurecode_backend.h"
#include "erasurecode_helpers.h"
#include <stdio.h>
#include <stdlib.h>
#include <string.h>
#include <stddef.h>
#include <limits.h>
#include <dlfcn.h>

/* exported by the shared objects the harness links against */
extern int *make_systematic_matrix(int k, int m);
extern void free_systematic_matrix(int *);
extern void init_liberasurecode_rs_vand(int k, int m);
extern void deinit_liberasurecode_rs_vand(void);
extern int rs_galois_mult(int x, int y);
extern int rs_galois_inverse(int x);
struct xor_code_s;
typedef struct xor_code_s {
    int k, m, hd; unsigned int *parity_bms; unsigned int *data_bms;
    void *decode, *encode, *fragments_needed;
} xor_code_view_t;
extern xor_code_view_t *init_xor_hd_code(int k, int m, int hd);

#include "stripe.h"

/* ------------------------------------------------------------------ erasure-set alphabets */
typedef void (*eset_cb)(uint32_t E, void *ctx);
/* all subsets of [0,n) with size in [smin,smax] */
static void enum_subsets(int n, int smin, int smax, eset_cb cb, void *ctx)
{
    if (smin <= 0) cb(0, ctx);
    for (int s = smin > 1 ? smin : 1; s <= smax && s <= n; s++) {
        uint64_t v = (1ull << s) - 1, lim = 1ull << n;
        while (v < lim) {
            cb((uint32_t)v, ctx);
            uint64_t c = v & -v, r = v + c;
            v = (((r ^ v) >> 2) / c) | r;
        }
    }
}
static uint32_t bits(int from, int cnt) { return cnt <= 0 ? 0 : (uint32_t)(((1ull << cnt) - 1) << from); }
/* structured family ST(n,k,m,t): all subsets of size<=2; sizes 3..t: cyclic windows, first/last s data,
 * first/last s parity, last s of the stripe, and data/parity mixes from both ends */
static uint32_t *st_sets; static int st_n, st_cap;
static void st_add(uint32_t E, void *ctx) { (void)ctx; if (st_n == st_cap) { st_cap = st_cap ? st_cap * 2 : 1024; st_sets = realloc(st_sets, sizeof(uint32_t) * (size_t)st_cap); } st_sets[st_n++] = E; }
static int cmp_u32(const void *a, const void *b)
{
    uint32_t x = *(const uint32_t *)a, y = *(const uint32_t *)b;
    int px = __builtin_popcount(x), py = __builtin_popcount(y);
    if (px != py) return px - py;
    return x < y ? -1 : x > y;
}
static void build_st(int n, int k, int m, int t)
{
    st_n = 0;
    enum_subsets(n, 0, t < 2 ? t : 2, st_add, NULL);
    for (int s = 3; s <= t; s++) {
        for (int st = 0; st < n; st++) { uint32_t E = 0; for (int i = 0; i < s; i++) E |= 1u << ((st + i) % n); st_add(E, NULL); }
        if (s <= k) { st_add(bits(0, s), NULL); st_add(bits(k - s, s), NULL); }
        if (s <= m) { st_add(bits(k, s), NULL); st_add(bits(n - s, s), NULL); }
        int a = (s + 1) / 2, b = s / 2;
        if (a <= k && b <= m) { st_add(bits(0, a) | bits(k, b), NULL); st_add(bits(k - a, a) | bits(n - b, b), NULL); st_add(bits(0, a) | bits(n - b, b), NULL); }
        if (b <= k && a <= m && b > 0) { st_add(bits(0, b) | bits(k, a), NULL); st_add(bits(k - b, b) | bits(n - a, a), NULL); }
    }
    qsort(st_sets, (size_t)st_n, sizeof(uint32_t), cmp_u32);
    int w = 0;
    for (int i = 0; i < st_n; i++) if (!w || st_sets[w - 1] != st_sets[i]) st_sets[w++] = st_sets[i];
    st_n = w;
}
/* the erasure alphabet for a shape: exhaustive up to tmax if n <= ex_n, else ST */
static void for_erasures(int n, int k, int m, int tmax, int ex_n, eset_cb cb, void *ctx)
{
    if (n <= ex_n) { enum_subsets(n, 0, tmax, cb, ctx); return; }
    build_st(n, k, m, tmax);
    /* copy: callbacks may rebuild st_sets */
    int cnt = st_n; uint32_t *cp = malloc(sizeof(uint32_t) * (size_t)(cnt ? cnt : 1)); memcpy(cp, st_sets, sizeof(uint32_t) * (size_t)cnt);
    for (int i = 0; i < cnt; i++) cb(cp[i], ctx);
    free(cp);
}

/* ------------------------------------------------------------------ recoverability per reference */
static int isa_first_k_invertible(struct stripe *s, uint32_t E)
{
    int k = s->sh.k; ref_matrix_isa(s);
    uint16_t *M = malloc(sizeof(uint16_t) * (size_t)k * k); int r = 0;
    for (int i = 0; i < s->n && r < k; i++) if (!(E >> i & 1)) { for (int j = 0; j < k; j++) M[r * k + j] = s->refG8[i * k + j]; r++; }
    int ok = r == k && f_rank(M, k, k, gf8_mul16, gf8_inv16) == k;
    free(M); return ok;
}
/* 1: the statement demands success; 0: demands only "exact or error" */
static int tolerated(struct stripe *s, uint32_t E)
{
    int e = __builtin_popcount(E);
    if (is_xor(s->sh.be)) return e < s->sh.hd;
    if (e > s->sh.m) return 0;
    if (is_isa(s->sh.be)) return isa_first_k_invertible(s, E);
    return 1;
}

/* ------------------------------------------------------------------ presentations */
enum { O_ID, O_REV, O_PF, O_ROT1, O_PERM };
enum { D_NONE, D_FIRST_END, D_ALL };
struct pres { int order, perm, dup, place, force; };
static void pres_name(const struct pres *p, char *b, size_t n)
{
    static const char *on[] = { "id", "rev", "pf", "rot1", "perm" }, *dn[] = { "nodup", "dup1", "dupall" }, *pn[] = { "end", "start16", "odd" };
    if (p->order == O_PERM) snprintf(b, n, "perm%d.%s.%s.f%d", p->perm, dn[p->dup], pn[p->place], p->force);
    else snprintf(b, n, "%s.%s.%s.f%d", on[p->order], dn[p->dup], pn[p->place], p->force);
}
static long factorial(int n) { long f = 1; for (int i = 2; i <= n; i++) f *= i; return f; }
static int build_list(struct stripe *s, uint32_t E, const struct pres *p, int *list)
{
    int surv[32], ns = 0, k = s->sh.k, n = s->n;
    for (int i = 0; i < n; i++) if (!(E >> i & 1)) surv[ns++] = i;
    int ord[32];
    switch (p->order) {
    case O_ID: memcpy(ord, surv, sizeof(int) * (size_t)ns); break;
    case O_REV: for (int i = 0; i < ns; i++) ord[i] = surv[ns - 1 - i]; break;
    case O_PF: { int c = 0; for (int i = 0; i < ns; i++) if (surv[i] >= k) ord[c++] = surv[i]; for (int i = 0; i < ns; i++) if (surv[i] < k) ord[c++] = surv[i]; break; }
    case O_ROT1: for (int i = 0; i < ns; i++) ord[i] = surv[(i + 1) % ns]; break;
    case O_PERM: {
        int pool[32]; memcpy(pool, surv, sizeof(int) * (size_t)ns); int rem = ns; long code = p->perm;
        long fact = factorial(ns - 1);
        for (int i = 0; i < ns; i++) {
            int idx = (int)(code / fact); code %= fact;
            ord[i] = pool[idx]; memmove(pool + idx, pool + idx + 1, sizeof(int) * (size_t)(rem - idx - 1)); rem--;
            if (rem > 0) fact /= rem;
        }
        break; }
    }
    int c = 0;
    if (p->dup == D_ALL) { for (int i = 0; i < ns; i++) { list[c++] = ord[i]; list[c++] = ord[i]; } }
    else { for (int i = 0; i < ns; i++) list[c++] = ord[i]; if (p->dup == D_FIRST_END && ns > 0) list[c++] = ord[0]; }
    return c;
}

/* ------------------------------------------------------------------ calls with bookkeeping */
static char **place_ptrs(struct stripe *s, const int *list, int nf, int place)
{
    char **arr = (char **)(s->gptr.p + s->gptr.len) - nf;
    for (int i = 0; i < nf; i++) arr[i] = (char *)frag_at(s, place, list[i]);
    return arr;
}
static int ptrs_intact(struct stripe *s, char **arr, const int *list, int nf, int place)
{
    for (int i = 0; i < nf; i++) if (arr[i] != (char *)s->frag[place][list[i]]) return 0;
    return 1;
}
struct dec_res { int rc; char *out; uint64_t outlen; };
static struct dec_res call_decode(struct stripe *s, const int *list, int nf, int place, int force)
{
    struct dec_res r; r.out = NULL; r.outlen = 0;
    char opn[96]; snprintf(opn, sizeof opn, "liberasurecode_decode:%s", be_name(s->sh.be)); vh_op(opn);
    char **arr = place_ptrs(s, list, nf, place);
    vh_transitions(1);
    r.rc = liberasurecode_decode(s->desc, arr, nf, s->flen, force, &r.out, &r.outlen);
    if (!ptrs_intact(s, arr, list, nf, place)) vh_violation("input-modified", "decode modified the caller's fragment pointer array");
    return r;
}
static void dec_release(struct stripe *s, struct dec_res *r)
{
    if (r->out && ledger_has(r->out)) liberasurecode_decode_cleanup(s->desc, r->out);
    r->out = NULL;
}
static int call_recon(struct stripe *s, const int *list, int nf, int place, int dest, uint8_t **outp)
{
    char opn[96]; snprintf(opn, sizeof opn, "liberasurecode_reconstruct_fragment:%s", be_name(s->sh.be)); vh_op(opn);
    char **arr = place_ptrs(s, list, nf, place);
    uint8_t *out = s->gout.p + s->gout.len - s->flen;
    memset(out, 0xEE, s->flen);
    vh_transitions(1);
    int rc = liberasurecode_reconstruct_fragment(s->desc, arr, nf, s->flen, dest, (char *)out);
    if (!ptrs_intact(s, arr, list, nf, place)) vh_violation("input-modified", "reconstruct modified the caller's fragment pointer array");
    *outp = out;
    return rc;
}

/* ------------------------------------------------------------------ the explorer */
struct plan {
    int do_decode, do_recon_missing, do_recon_all, do_recon_oor;
    int strict;            /* 1: tolerated sets must succeed exactly (C01/C03); 0: exact-or-error only (C02) */
    int tmax_mode;         /* 0: tolerance; 1: all subsets (t=n); 2: xor |E|<=hd ; 3: xor |E| <= m */
    int ex_n;              /* exhaustive threshold on n */
    int pres_mode;         /* 0 identity only; 1 identity + one round-robin; 2 full product; 3 c02 set (id, dup1) */
    int perm_max;          /* all permutations when survivors <= perm_max */
    int check_ledger;      /* 1: every case must leave the ledger of library allocations exactly as it found it (C16) */
    const char *prop;
};
struct xctx { struct stripe *s; const struct plan *pl; long rr; };

static const struct pres RR[] = {
    { O_REV, 0, D_NONE, GP_END, 0 }, { O_PF, 0, D_NONE, GP_START16, 1 }, { O_ROT1, 0, D_FIRST_END, GP_ODD, 0 },
    { O_ID, 0, D_ALL, GP_ODD, 1 }, { O_REV, 0, D_FIRST_END, GP_START16, 0 }, { O_PF, 0, D_ALL, GP_END, 1 },
    { O_ID, 0, D_NONE, GP_ODD, 0 }, { O_ROT1, 0, D_NONE, GP_START16, 1 }, { O_ID, 0, D_NONE, GP_START16, 1 },
};
#define NRR ((int)(sizeof RR / sizeof RR[0]))

static void check_decode(struct stripe *s, uint32_t E, const struct dec_res *r, int must)
{
    if (r->rc == 0) {
        if (r->outlen != s->len) vh_violation(must ? "wrong-length" : "success-with-wrong-length", "decode E=0x%x returned length %lu, original %lu", E, (unsigned long)r->outlen, (unsigned long)s->len);
        else if (s->len && (!r->out || memcmp(r->out, s->data, s->len))) {
            char d[128]; if (r->out) first_diff((uint8_t *)r->out, s->data, s->len, d, sizeof d); else snprintf(d, sizeof d, "NULL output");
            vh_violation("success-with-wrong-bytes", "decode E=0x%x (|E|=%d) rc=0 but data differs: %s", E, __builtin_popcount(E), d);
        }
    } else if (r->rc > 0) {
        vh_violation("positive-rc", "decode E=0x%x returned positive code %d", E, r->rc);
    } else if (must) {
        vh_violation("refused-tolerated-set", "decode E=0x%x (|E|=%d, within tolerance) returned %d", E, __builtin_popcount(E), r->rc);
    }
}
static void check_recon(struct stripe *s, uint32_t E, int dest, int rc, const uint8_t *out, int must)
{
    if (rc == 0) {
        if (memcmp(out, enc_frag(s, dest), s->flen)) {
            char d[128]; first_diff(out, (uint8_t *)enc_frag(s, dest), s->flen, d, sizeof d);
            vh_violation("success-with-wrong-bytes", "reconstruct E=0x%x dest=%d rc=0 but fragment differs from encode's: %s", E, dest, d);
        }
    } else if (rc > 0) vh_violation("positive-rc", "reconstruct E=0x%x dest=%d returned positive code %d", E, dest, rc);
    else if (must) vh_violation("refused-tolerated-set", "reconstruct E=0x%x dest=%d (within tolerance) returned %d", E, dest, rc);
}

static void run_pres(struct xctx *x, uint32_t E, const struct pres *p)
{
    struct stripe *s = x->s; const struct plan *pl = x->pl;
    char pn[64]; pres_name(p, pn, sizeof pn);
    if (!vh_case_begin("E%x/%s", E, pn)) return;
    int list[64]; int nf = build_list(s, E, p, list);
    int tol = tolerated(s, E);
    int must = pl->strict && tol;
    long before = tap_calls[TAP_DECODE] + tap_calls[TAP_RECON];
    long lc0 = ledger_count(), lb0 = ledger_bytes();
    if (pl->do_decode) {
        struct dec_res r = call_decode(s, list, nf, p->place, p->force);
        check_decode(s, E, &r, must);
        dec_release(s, &r);
    }
    if (pl->do_recon_missing || pl->do_recon_all) {
        for (int d = 0; d < s->n; d++) {
            int missing = E >> d & 1;
            if (!missing && !pl->do_recon_all) continue;
            uint8_t *out; int rc = call_recon(s, list, nf, p->place, d, &out);
            /* a present destination must come back unchanged whenever the call's other preconditions hold */
            check_recon(s, E, d, rc, out, must);
        }
    }
    if (pl->do_recon_oor && nf > 0) {
        static const int oor[] = { -1, 0, 1, INT_MAX, INT_MIN };
        for (int i = 0; i < 5; i++) {
            int d = i == 1 ? s->n : i == 2 ? s->n + 1 : oor[i];
            uint8_t *out; int rc = call_recon(s, list, nf, p->place, d, &out);
            if (rc >= 0) vh_violation("out-of-range-destination-accepted", "reconstruct dest=%d (valid range 0..%d) returned %d", d, s->n - 1, rc);
        }
    }
    if (tap_calls[TAP_DECODE] + tap_calls[TAP_RECON] > before) vh_nontrivial();
    if (pl->check_ledger && (ledger_count() != lc0 || ledger_bytes() != lb0)) { char dd[200]; ledger_dump(dd, sizeof dd);
        vh_violation("leak", "E=0x%x %s: decode + decode_cleanup + reconstruct left %ld blocks / %ld bytes allocated (live sizes: %s)", E, pn, ledger_count() - lc0, ledger_bytes() - lb0, dd); }
    if (!tol) vh_count("beyond_tolerance_cases", 1);
}

static void on_eset(uint32_t E, void *ctx)
{
    struct xctx *x = ctx; struct stripe *s = x->s; const struct plan *pl = x->pl;
    struct pres id = { O_ID, 0, D_NONE, GP_END, 0 };
    int ns = s->n - __builtin_popcount(E);
    switch (pl->pres_mode) {
    case 0: run_pres(x, E, &id); break;
    case 1: run_pres(x, E, &id); if (ns > 0) run_pres(x, E, &RR[x->rr++ % NRR]); break;
    case 3: { run_pres(x, E, &id); if (ns > 0) { struct pres d1 = { O_ID, 0, D_FIRST_END, GP_END, 0 }; run_pres(x, E, &d1);
              struct pres d2 = { O_REV, 0, D_ALL, GP_ODD, 1 }; run_pres(x, E, &d2); } break; }
    case 2: {
        int norders = 4 + (ns <= pl->perm_max && ns >= 2 ? (int)factorial(ns) : 0);
        for (int o = 0; o < norders; o++) for (int dup = 0; dup < 3; dup++) for (int place = 0; place < 3; place++) for (int force = 0; force < 2; force++) {
            struct pres p = { o < 4 ? o : O_PERM, o < 4 ? 0 : o - 4, dup, place, force };
            if (ns == 0 && (o || dup)) continue;
            run_pres(x, E, &p);
        }
        break; }
    }
}

static int plan_tmax(const struct plan *pl, const struct shape *sh)
{
    int n = sh->k + sh->m;
    switch (pl->tmax_mode) {
    case 0: return is_xor(sh->be) ? sh->hd - 1 : sh->m;
    case 1: return n;
    case 2: return is_xor(sh->be) ? sh->hd : sh->m + 1;
    case 3: return sh->m;
    }
    return 0;
}

/* one group = one stripe explored under a plan */
static void explore_stripe(const struct plan *pl, struct shape sh, int ct, uint64_t len, int pat, const char *env, int pres_mode_override, int tmax_override)
{
    if (!vh_group_begin("S/%s/%s/k%dm%dhd%d%s/ct%d/len%lu/%s%s%s", pl->prop, be_name(sh.be), sh.k, sh.m, sh.hd, wtag(&sh), ct, (unsigned long)len, vh_pat_name[pat],
                        env ? "/env" : "", env ? env : "")) return;
    struct stripe s;
    if (stripe_open(&s, sh, ct, len, pat, env) == 0) {
        struct plan p2 = *pl; if (pres_mode_override >= 0) p2.pres_mode = pres_mode_override;
        struct xctx x = { &s, &p2, (long)(sh.k * 7 + sh.m * 3 + (long)len) };
        int tmax = tmax_override >= 0 ? tmax_override : plan_tmax(&p2, &sh);
        for_erasures(s.n, sh.k, sh.m, tmax, p2.ex_n, on_eset, &x);
    }
    stripe_close(&s, 0);
    vh_group_end();
}

/* ------------------------------------------------------------------ length alphabets */
static int lengths_for(struct shape sh, int thorough, uint64_t *out, int *big_from)
{
    uint64_t a = (uint64_t)sh.k * word_bytes(sh.be); int c = 0;
    uint64_t q[] = { 0, 1, a - 1, a, a + 1, 2 * a + 3, 1000 };
    for (int i = 0; i < 7; i++) { int dupl = 0; for (int j = 0; j < c; j++) if (out[j] == q[i]) dupl = 1; if (!dupl) out[c++] = q[i]; }
    *big_from = c;
    if (thorough) {
        uint64_t t[] = { 16 * a - 1, 16 * a, 4096, 4097, 65537, 1u << 20 };
        for (int i = 0; i < 6; i++) { int dupl = 0; for (int j = 0; j < c; j++) if (out[j] == t[i]) dupl = 1; if (!dupl) out[c++] = t[i]; if (i == 1) *big_from = c; }
    } else if (named_shape(&sh) && !sh.wv) {
        /* quick: the named shapes also see two buffers above every 8- and 16-bit boundary (identity presentation, at most one erasure) */
        out[c++] = 4097; out[c++] = 65537;
    }
    return c;
}

/* ------------------------------------------------------------------ plans C01 / C02 / C03 */
static int shapes_null(struct shape *out)
{
    static const int km[][2] = { {1,1}, {2,1}, {4,2}, {10,4}, {3,5} }; int c = 0;
    for (int i = 0; i < 5; i++) { out[c].be = EC_BACKEND_NULL; out[c].k = km[i][0]; out[c].m = km[i][1]; out[c].hd = km[i][1]; out[c].wv = 0; c++; }
    return c;
}
static void collect_shapes(struct shape **out, int *n, int with_rs, int with_xor, int with_isa)
{
    struct shape *sh = malloc(sizeof(struct shape) * 2200); int c = 0;
    shapes_with_m0 = (int)vh_opt("m0", 1);
    if (with_rs) c += shapes_km(sh + c, EC_BACKEND_LIBERASURECODE_RS_VAND, 32);
    if (with_xor) c += shapes_xor(sh + c);
    if (with_isa) { c += shapes_km(sh + c, EC_BACKEND_ISA_L_RS_VAND, 32); c += shapes_km(sh + c, EC_BACKEND_ISA_L_RS_CAUCHY, 32); }
    /* simplest first across backends: stable sort by n */
    for (int i = 1; i < c; i++) { struct shape t = sh[i]; int j = i; while (j > 0 && sh[j - 1].k + sh[j - 1].m > t.k + t.m) { sh[j] = sh[j - 1]; j--; } sh[j] = t; }
    *out = sh; *n = c;
}

/* priority order of the short-length alphabet, used when a plan takes only the first few */
static int len_rank(uint64_t len, uint64_t a)
{
    uint64_t pr[7] = { 2 * a + 3, a - 1, 0, a + 1, 1, a, 1000 };
    for (int i = 0; i < 7; i++) if (pr[i] == len) return i;
    return 7;
}
static void plan_roundtrip(const char *prop, int with_rs, int with_xor, int with_isa, int recon)
{
    int thorough = !strcmp(vh_tier(), "thorough");
    struct plan pl; memset(&pl, 0, sizeof pl);
    pl.prop = prop; pl.strict = 1; pl.tmax_mode = 0;
    pl.do_decode = !recon; pl.do_recon_all = recon; pl.do_recon_oor = recon;
    pl.ex_n = (int)vh_opt("ex_n", thorough ? 16 : 12);
    pl.perm_max = thorough ? 5 : 4;
    int max_n = (int)vh_opt("max_n", 32);
    int isa_n = (int)vh_opt("isa_n", 32);                 /* ISA-L shapes above this n are left to C19 (named shapes stay) */
    int ex_lens = (int)vh_opt("ex_lens", recon ? 3 : 7);   /* lengths taken on exhaustively explored shapes */
    int st_lens = (int)vh_opt("st_lens", thorough ? (recon ? 3 : 7) : (recon ? 2 : 4));  /* ... on structured-family shapes */
    struct shape *sh; int ns; collect_shapes(&sh, &ns, with_rs, with_xor, with_isa);
    int small_n = (int)vh_opt("small_n", 6);
    for (int i = 0; i < ns; i++) {
        uint64_t L[16]; int big_from; int nl = lengths_for(sh[i], thorough, L, &big_from);
        int n = sh[i].k + sh[i].m;
        uint64_t a = (uint64_t)sh[i].k * word_bytes(sh[i].be);
        int full = n <= small_n || named_shape(&sh[i]);
        if (is_isa(sh[i].be) && n > isa_n && !named_shape(&sh[i])) continue;
        if (n > max_n && !named_shape(&sh[i])) continue;
        int npat = thorough ? PAT_N : 2;
        for (int li = 0; li < nl; li++) for (int pat = 0; pat < npat; pat++) for (int ct = CHKSUM_NONE; ct <= CHKSUM_CRC32; ct++) {
            int big = li >= big_from;
            uint64_t len = L[li];
            int pm, tmax = -1;
            if (big) {                       /* large buffers: identity presentation, at most one erasure */
                if (pat != PAT_RAMP || ct != CHKSUM_CRC32) continue;
                pm = 0; tmax = 1;
            } else if (full) {               /* small and named shapes: full presentation product on two lengths */
                pm = (pat == PAT_RAMP && (len == a || len == 2 * a + 3)) ? 2 : 1;
                if (recon && pm == 2 && len == a) pm = 1;
                if (recon && n > small_n && pat != PAT_RAMP) continue;
            } else {                         /* all other shapes: identity + one round-robin presentation per erasure set */
                if (pat != PAT_RAMP && ct == CHKSUM_NONE) continue;
                if (len_rank(len, a) >= (n > pl.ex_n ? st_lens : ex_lens)) continue;
                pm = 1;
                if (recon) { if (pat != PAT_RAMP) continue; pm = len == 2 * a + 3 ? 1 : 0; if (n > pl.ex_n && ct != (len == 2 * a + 3 ? CHKSUM_CRC32 : CHKSUM_NONE)) continue; }
            }
            explore_stripe(&pl, sh[i], ct, len, pat, NULL, pm, tmax);
        }
        /* a payload that looks like fragment headers (the header magic at offset 59 of the blocks) */
        if (full && !thorough) explore_stripe(&pl, sh[i], CHKSUM_CRC32, 64 * (uint64_t)sh[i].k, PAT_MAGIC, NULL, 1, -1);
        /* the same stripe while two instances of a different shape of the same back end are alive (created before / after it) */
        if (full) {
            struct shape comp = sh[i];
            if (is_xor(sh[i].be)) { struct shape xs[64]; int nx = shapes_xor(xs); for (int q = 0; q < nx; q++) if (xs[q].k == sh[i].k && xs[q].m == sh[i].m && xs[q].hd == sh[i].hd) comp = xs[(q + 7) % nx]; }
            else if (n < 32) comp.k = sh[i].k + 1; else { comp.k = sh[i].m; comp.m = comp.hd = sh[i].k; if (comp.k == sh[i].k) { comp.k = 2; comp.m = comp.hd = 3; } }
            stripe_companion = comp;
            char tag[48]; snprintf(tag, sizeof tag, "%s/with-k%dm%dhd%d", prop, comp.k, comp.m, comp.hd);
            struct plan p3 = pl; p3.prop = tag;
            explore_stripe(&p3, sh[i], CHKSUM_CRC32, 2 * a + 3, PAT_RAMP, NULL, 1, -1);
            memset(&stripe_companion, 0, sizeof stripe_companion);
        }
        /* caller-supplied word sizes the backend ignores: same stripe, same results */
        if (full) { int wv[4]; int nw = w_variants(sh[i].be, wv);
            for (int q = 0; q < nw; q++) { struct shape sw = sh[i]; sw.wv = wv[q]; explore_stripe(&pl, sw, CHKSUM_CRC32, q & 1 ? 1 : 2 * a + 3, PAT_RAMP, NULL, 1, -1); } }
    }
    free(sh);
}

static void plan_c02(int with_rs, int with_xor, int with_isa, const char *prop)
{
    int thorough = !strcmp(vh_tier(), "thorough");
    struct plan pl; memset(&pl, 0, sizeof pl);
    pl.prop = prop; pl.strict = 0; pl.do_decode = 1; pl.do_recon_missing = 1; pl.pres_mode = 3;
    int all_n = (int)vh_opt("all_n", thorough ? 14 : 12);
    int max_n = (int)vh_opt("max_n", 32);
    struct shape *sh; int ns; collect_shapes(&sh, &ns, with_rs, with_xor, with_isa);
    for (int i = 0; i < ns; i++) {
        int n = sh[i].k + sh[i].m;
        if (n > max_n && !named_shape(&sh[i])) continue;
        uint64_t a = (uint64_t)sh[i].k * word_bytes(sh[i].be);
        uint64_t L[2] = { 2 * a + 3, 1 }; int nl = n <= 8 ? 2 : 1;
        for (int li = 0; li < nl; li++) {
            if (is_xor(sh[i].be)) {
                pl.tmax_mode = (thorough || n <= 14) ? 3 : 2; pl.ex_n = 32;
            } else if (n <= all_n) { pl.tmax_mode = 1; pl.ex_n = 32; }
            else { pl.tmax_mode = 2; pl.ex_n = 0; }   /* ST up to m+1 erasures */
            explore_stripe(&pl, sh[i], CHKSUM_CRC32, L[li], PAT_RAMP, NULL, -1, -1);
        }
    }
    free(sh);
}

/* ------------------------------------------------------------------ plan C06: fragments_needed */
struct nctx { struct stripe *s; int tol; };
static int needed_check_ledger, needed_overlap;          /* set by the C16 sweep: the query allocates scratch lists and must release them on every path */
static int lists_intact(const int *a, const int *b, int n) { return !memcmp(a, b, sizeof(int) * (size_t)n); }
static void needed_case(struct stripe *s, uint32_t R, uint32_t X, int desc_order, int within)
{
    if (!vh_case_begin("R%xX%x/%s%s", R, X, desc_order ? "desc" : "asc", needed_overlap ? "/overlap" : "")) return;
    int n = s->n, k = s->sh.k;
    /* three guard-bounded int lists: R and X end at the guard page of gidx (read-only content verified), N in gout */
    int rl[34], xl[34], nr = 0, nx = 0;
    if (!desc_order) { for (int i = 0; i < n; i++) { if (R >> i & 1) rl[nr++] = i; if (X >> i & 1) xl[nx++] = i; } }
    else { for (int i = n - 1; i >= 0; i--) { if (R >> i & 1) rl[nr++] = i; if (X >> i & 1) xl[nx++] = i; } }
    rl[nr] = -1; xl[nx] = -1;
    int *gx = (int *)(s->gidx.p + s->gidx.len) - (nx + 1);
    int *gr = gx - (nr + 1);
    memcpy(gr, rl, sizeof(int) * (size_t)(nr + 1)); memcpy(gx, xl, sizeof(int) * (size_t)(nx + 1));
    int *N = (int *)(s->gout.p + s->gout.len) - n;       /* exactly n slots, as the repository's own callers provide */
    for (int i = 0; i < n; i++) N[i] = -77;
    char opn[96]; snprintf(opn, sizeof opn, "liberasurecode_fragments_needed:%s", be_name(s->sh.be)); vh_op(opn);
    vh_transitions(1);
    long before = tap_calls[TAP_NEEDED];
    long nl0 = ledger_count(), nb0 = ledger_bytes();
    int rc = liberasurecode_fragments_needed(s->desc, gr, gx, N);
    if (needed_check_ledger && (ledger_count() != nl0 || ledger_bytes() != nb0)) vh_violation("leak", "fragments_needed R=0x%x X=0x%x (rc=%d) left %ld blocks / %ld bytes allocated", R, X, rc, ledger_count() - nl0, ledger_bytes() - nb0);
    if (tap_calls[TAP_NEEDED] > before) vh_nontrivial();
    if (!lists_intact(gr, rl, nr + 1) || !lists_intact(gx, xl, nx + 1)) vh_violation("input-modified", "fragments_needed modified its input lists");
    if (rc != 0) {
        if (within) vh_violation("refused-within-tolerance", "fragments_needed R=0x%x X=0x%x (|R|+|X|=%d within tolerance) returned %d", R, X, nr + nx, rc);
        return;
    }
    /* rc == 0: the list must be right, whether or not the request was within tolerance */
    uint32_t Nm = 0; int cnt = 0, term = -1;
    for (int i = 0; i < n; i++) if (N[i] == -1) { term = i; break; }
    if (term < 0) { vh_violation("wrong-list", "R=0x%x X=0x%x rc=0 but the list is not -1-terminated within %d slots (first entries %d %d %d)", R, X, n, N[0], n > 1 ? N[1] : 0, n > 2 ? N[2] : 0); return; }
    for (int i = 0; i < term; i++) {
        if (N[i] < 0 || N[i] >= n) { vh_violation("wrong-list", "R=0x%x X=0x%x rc=0: entry %d = %d is outside 0..%d", R, X, i, N[i], n - 1); return; }
        if (Nm >> N[i] & 1) { vh_violation("wrong-list", "R=0x%x X=0x%x rc=0: index %d listed twice", R, X, N[i]); return; }
        Nm |= 1u << N[i]; cnt++;
    }
    if (Nm & R) { vh_violation("wrong-list", "R=0x%x X=0x%x rc=0: list 0x%x contains a requested index", R, X, Nm); return; }
    if (Nm & X) { vh_violation("wrong-list", "R=0x%x X=0x%x rc=0: list 0x%x contains an excluded index", R, X, Nm); return; }
    /* sufficiency */
    if (is_xor(s->sh.be)) {
        for (int r = 0; r < n; r++) if ((R >> r & 1) && !xor_determined(s->xorp, k, s->sh.m, Nm, r)) {
            vh_violation("wrong-list", "R=0x%x X=0x%x rc=0: fragment %d is not determined by the listed fragments 0x%x", R, X, r, Nm); return; }
    } else {
        if (cnt != k) { vh_violation("wrong-list", "R=0x%x X=0x%x rc=0: %d indexes returned, an MDS code needs exactly k=%d", R, X, cnt, k); return; }
    }
    /* constructive follow-up: reconstruct every requested fragment from only the N fragments */
    uint32_t E = ~Nm & (uint32_t)((1ull << n) - 1);
    /* only where the public reconstruct is itself obliged to succeed (C01/C03 domain); for flat-XOR lists that leave
     * hd or more fragments absent the GF(2) rank test above is the whole oracle */
    if (tolerated(s, E)) {
        struct pres id = { O_ID, 0, D_NONE, GP_END, 0 }; int list[64]; int nf = build_list(s, E, &id, list);
        for (int r = 0; r < n; r++) if (R >> r & 1) {
            uint8_t *out; int rc2 = call_recon(s, list, nf, GP_END, r, &out);
            if (rc2 != 0 || memcmp(out, enc_frag(s, r), s->flen))
                vh_violation("list-not-usable", "R=0x%x X=0x%x: reconstructing %d from only the listed fragments 0x%x gave rc=%d%s", R, X, r, Nm, rc2, rc2 == 0 ? " with wrong bytes" : "");
        }
    }
}
static void on_union(uint32_t U, void *ctx)
{
    struct nctx *c = ctx; struct stripe *s = c->s;
    if (!U) return;
    int within = __builtin_popcount(U) <= c->tol;
    /* every non-empty R subset of U; X = U \ R */
    for (uint32_t R = U; R; R = (R - 1) & U) {
        needed_case(s, R, U & ~R, 0, within);
        if (__builtin_popcount(U) > 1) needed_case(s, R, U & ~R, 1, within);
        /* Reed-Solomon back ends: the lists may overlap (the repository's own test asks to rebuild and to exclude the same index); what
         * counts is the set of distinct unavailable fragments. (flat-XOR refuses some overlapping requests on the pinned tree; the
         * statement can be read with multiplicity, so nothing is demanded there.) */
        if (!is_xor(s->sh.be) && within) needed_overlap = 1, needed_case(s, R, (U & ~R) | (R & -R), 0, within), needed_overlap = 0;
    }
}
static void plan_c06_impl(int with_rs, int with_xor, int with_isa, const char *prop, int only_n)
{
    int thorough = !strcmp(vh_tier(), "thorough");
    int ex_n = (int)vh_opt("ex_n", thorough ? 12 : 10);
    struct shape *sh; int ns; collect_shapes(&sh, &ns, with_rs, with_xor, with_isa);
    for (int i = 0; i < ns; i++) {
        if (only_n && !is_xor(sh[i].be) && sh[i].k + sh[i].m > only_n) continue;
        uint64_t a = (uint64_t)sh[i].k * word_bytes(sh[i].be);
        if (!vh_group_begin("S/%s/%s/k%dm%dhd%d/needed", prop, be_name(sh[i].be), sh[i].k, sh[i].m, sh[i].hd)) continue;
        struct stripe s;
        if (stripe_open(&s, sh[i], CHKSUM_CRC32, 2 * a + 3, PAT_RAMP, NULL) == 0) {
            int tol = is_xor(sh[i].be) ? sh[i].hd - 1 : sh[i].m;
            struct nctx c = { &s, tol };
            int n = s.n;
            /* one beyond tolerance is included with the weaker demand "error or still-correct list" */
            int tmax = tol + 1 > n - 1 ? n - 1 : tol + 1;
            if (is_xor(sh[i].be) || n <= ex_n) enum_subsets(n, 1, tmax, on_union, &c);
            else {
                int t = tmax; int cap = (int)vh_opt("st_t", thorough ? 8 : 6); if (t > cap) t = cap;     /* 2^t subsets R per union */
                for_erasures(n, sh[i].k, sh[i].m, t, 0, on_union, &c);
            }
        }
        stripe_close(&s, 0);
        vh_group_end();
    }
    free(sh);
}

static void plan_c06(int with_rs, int with_xor, int with_isa, const char *prop) { plan_c06_impl(with_rs, with_xor, with_isa, prop, 0); }

/* ------------------------------------------------------------------ plan C07 wire format, C04(d)/C05 parity bytes */
static void encode_vs_reference(const char *prop, struct shape sh, int ct, uint64_t len, int pat, const char *env, int payload_only, int parity_only)
{
    if (!vh_group_begin("S/%s/%s/k%dm%dhd%d%s/ct%d/len%lu/%s%s%s/encode", prop, be_name(sh.be), sh.k, sh.m, sh.hd, wtag(&sh), ct, (unsigned long)len, vh_pat_name[pat], env ? "/env" : "", env ? env : "")) return;
    struct stripe s;
    if (stripe_open(&s, sh, ct, len, pat, env) == 0) {
        uint64_t al = ref_aligned(sh.be, sh.k, len); uint32_t bs = (uint32_t)(al / (uint64_t)sh.k);
        uint8_t *exp = malloc(bs + WIRE_HDR);
        if (vh_case_begin("lengths")) {
            vh_nontrivial();
            if (s.flen != (uint64_t)bs + WIRE_HDR) vh_violation("wrong-fragment-length", "fragment_len=%lu, reference %u+80", (unsigned long)s.flen, bs);
        }
        if (s.flen == (uint64_t)bs + WIRE_HDR)
            for (int i = parity_only ? sh.k : 0; i < s.n; i++) {
                if (!vh_case_begin("frag%d", i)) continue;
                vh_nontrivial();
                ref_fragment(&s, i, exp, bs);
                const uint8_t *got = (uint8_t *)enc_frag(&s, i);
                size_t off = payload_only ? WIRE_HDR : 0;
                if (memcmp(got + off, exp + off, bs + WIRE_HDR - off)) {
                    char d[128]; first_diff(got + off, exp + off, bs + WIRE_HDR - off, d, sizeof d);
                    vh_violation(payload_only ? "parity-differs-from-model" : "fragment-differs-from-serializer", "fragment %d (%s): %s", i, payload_only ? "payload, offset relative to payload" : "all bytes", d);
                }
            }
        /* purity: encoding the same input again gives the same bytes */
        if (!payload_only && vh_case_begin("again")) {
            char **d2, **p2; uint64_t fl2; vh_transitions(1);
            int rc = liberasurecode_encode(s.desc, (char *)s.data, len, &d2, &p2, &fl2);
            if (rc != 0 || fl2 != s.flen) vh_violation("not-pure", "second encode rc=%d len=%lu", rc, (unsigned long)fl2);
            else {
                for (int i = 0; i < s.n; i++) if (memcmp(i < sh.k ? d2[i] : p2[i - sh.k], enc_frag(&s, i), s.flen)) { vh_violation("not-pure", "fragment %d differs between two encodes of the same input", i); break; }
            }
            if (rc == 0) liberasurecode_encode_cleanup(s.desc, d2, p2);
        }
        free(exp);
    }
    stripe_close(&s, 0);
    vh_group_end();
}

static void plan_c07(void)
{
    int thorough = !strcmp(vh_tier(), "thorough");
    if (vh_group_begin("S/C07/layout")) {
        if (vh_case_begin("sizeof-offsetof")) {
            vh_nontrivial();
#define OFFCHK(T, f, o) do { if (offsetof(T, f) != (o)) vh_violation("layout", #T "." #f " is at offset %zu, format says %d", offsetof(T, f), (o)); } while (0)
            if (sizeof(fragment_header_t) != 80) vh_violation("layout", "sizeof(fragment_header_t) = %zu, format says 80", sizeof(fragment_header_t));
            if (sizeof(fragment_metadata_t) != 59) vh_violation("layout", "sizeof(fragment_metadata_t) = %zu, format says 59", sizeof(fragment_metadata_t));
            OFFCHK(fragment_header_t, meta.idx, 0); OFFCHK(fragment_header_t, meta.size, 4);
            OFFCHK(fragment_header_t, meta.frag_backend_metadata_size, 8); OFFCHK(fragment_header_t, meta.orig_data_size, 12);
            OFFCHK(fragment_header_t, meta.chksum_type, 20); OFFCHK(fragment_header_t, meta.chksum, 21);
            OFFCHK(fragment_header_t, meta.chksum_mismatch, 53); OFFCHK(fragment_header_t, meta.backend_id, 54);
            OFFCHK(fragment_header_t, meta.backend_version, 55); OFFCHK(fragment_header_t, magic, 59);
            OFFCHK(fragment_header_t, libec_version, 63); OFFCHK(fragment_header_t, metadata_chksum, 67);
            OFFCHK(fragment_header_t, aligned_padding, 71);
            if (LIBERASURECODE_FRAG_HEADER_MAGIC != 0x0b0c5ecc) vh_violation("layout", "magic constant is 0x%x", LIBERASURECODE_FRAG_HEADER_MAGIC);
        }
        vh_group_end();
    }
    struct shape *sh; int ns; collect_shapes(&sh, &ns, 1, 1, 1);
    ns += shapes_null(sh + ns);       /* the null back end writes the same wire format (its parity payloads stay zero) */
    for (int i = 0; i < ns; i++) {
        uint64_t L[16]; int bf; int nl = lengths_for(sh[i], thorough, L, &bf);
        for (int li = 0; li < nl; li++) for (int ct = CHKSUM_NONE; ct <= CHKSUM_CRC32; ct++) for (int e = 0; e < 2; e++) {
            if (li >= bf && (ct != CHKSUM_CRC32 || e)) continue;
            int npat = thorough ? 3 : 1;
            for (int pat = 0; pat < npat; pat++) {
                if (pat && (e || ct == CHKSUM_NONE)) continue;
                encode_vs_reference("C07", sh[i], ct, L[li], pat, e ? "1" : NULL, 0, 0);
            }
        }
        { int wv[4]; int nw = w_variants(sh[i].be, wv); uint64_t a = (uint64_t)sh[i].k * word_bytes(sh[i].be);
          for (int q = 0; q < nw; q++) { struct shape sw = sh[i]; sw.wv = wv[q]; encode_vs_reference("C07", sw, CHKSUM_CRC32, 2 * a + 3, PAT_RAMP, NULL, 0, 0); encode_vs_reference("C07", sw, CHKSUM_NONE, 1, PAT_RAMP, NULL, 0, 0); } }
    }
    free(sh);
}

/* ------------------------------------------------------------------ plan C04 */
static void plan_c04(void)
{
    int thorough = !strcmp(vh_tier(), "thorough");
    struct shape *sh = malloc(sizeof(struct shape) * 600); int ns = shapes_km(sh, EC_BACKEND_LIBERASURECODE_RS_VAND, 32);
    init_liberasurecode_rs_vand(1, 1);
    /* (a) every generator entry vs the closed form; (c) every k-subset of rows invertible */
    int inv_n = (int)vh_opt("inv_n", thorough ? 20 : 16);
    for (int i = 0; i < ns; i++) {
        int k = sh[i].k, m = sh[i].m, n = k + m;
        if (!vh_group_begin("S/C04/generator/k%dm%d", k, m)) continue;
        vh_op("make_systematic_matrix");
        int *G = make_systematic_matrix(k, m);
        uint16_t *R = malloc(sizeof(uint16_t) * (size_t)n * k); gf16_generator(k, m, R);
        if (vh_case_begin("closed-form")) {
            vh_nontrivial(); vh_transitions(1);
            if (!G) vh_violation("generator", "make_systematic_matrix(%d,%d) returned NULL", k, m);
            else for (int r = 0; r < n; r++) for (int j = 0; j < k; j++) if (G[r * k + j] != R[r * k + j]) {
                vh_violation("generator-differs-from-closed-form", "G[%d][%d] = %d, closed form L_j(r)/L_j(k) = %u", r, j, G[r * k + j], R[r * k + j]); r = n; break; }
        }
        if (G) {
            /* invertibility of row subsets of the implementation's own matrix, arithmetic by the reference */
            uint16_t *M = malloc(sizeof(uint16_t) * (size_t)k * k);
            if (n <= inv_n) {
                uint64_t v = (1ull << k) - 1, lim = 1ull << n; long cnt = 0, bad = 0;
                if (vh_case_begin("all-%d-subsets-of-rows", k)) {
                    vh_nontrivial();
                    while (v < lim) {
                        int r = 0; for (int row = 0; row < n; row++) if (v >> row & 1) { for (int j = 0; j < k; j++) M[r * k + j] = (uint16_t)G[row * k + j]; r++; }
                        if (f_rank(M, k, k, gf16_mul, gf16_inv) != k) { if (!bad) vh_violation("singular-row-subset", "rows 0x%lx of the (%d,%d) generator are linearly dependent", (unsigned long)v, k, m); bad++; }
                        cnt++;
                        uint64_t c = v & -v, rr = v + c; v = (((rr ^ v) >> 2) / c) | rr;
                    }
                    vh_count("row_subsets_checked", cnt);
                }
            } else if (vh_case_begin("structured-row-subsets")) {
                vh_nontrivial();
                build_st(n, k, m, m); long cnt = 0;
                for (int e = 0; e < st_n; e++) {
                    if (__builtin_popcount(st_sets[e]) != m) continue;
                    uint32_t keep = ~st_sets[e] & (uint32_t)((1ull << n) - 1);
                    int r = 0; for (int row = 0; row < n; row++) if (keep >> row & 1) { for (int j = 0; j < k; j++) M[r * k + j] = (uint16_t)G[row * k + j]; r++; }
                    if (f_rank(M, k, k, gf16_mul, gf16_inv) != k) { vh_violation("singular-row-subset", "rows 0x%x of the (%d,%d) generator are linearly dependent", keep, k, m); break; }
                    cnt++;
                }
                vh_count("row_subsets_checked", cnt);
            }
            free(M);
            free_systematic_matrix(G);
        }
        free(R);
        vh_group_end();
    }
    /* (b) the one content-dependent primitive: every product (and inverse) vs shift-and-xor */
    int xstep = (int)vh_opt("mul_x_step", 1);
    for (int hi = 0; hi < 256; hi++) {
        if (!vh_group_begin("S/C04/galois/x%02xxx", hi)) continue;
        for (int lo = 0; lo < 256; lo += xstep) {
            int x = hi << 8 | lo;
            if (!vh_case_begin("x%04x", x)) continue;
            vh_nontrivial(); vh_op("rs_galois_mult"); vh_transitions(65536);
            for (int y = 0; y < 65536; y++) {
                int got = rs_galois_mult(x, y);
                if (got != gf16_mul((uint16_t)x, (uint16_t)y)) { vh_violation("field-multiply", "rs_galois_mult(%d,%d) = %d, GF(2^16)/0x1100b product is %u", x, y, got, gf16_mul((uint16_t)x, (uint16_t)y)); break; }
            }
            if (x) { int iv = rs_galois_inverse(x); if (iv != gf16_inv((uint16_t)x)) vh_violation("field-inverse", "rs_galois_inverse(%d) = %d, expected %u", x, iv, gf16_inv((uint16_t)x)); }
        }
        vh_group_end();
    }
    deinit_liberasurecode_rs_vand();
    /* (d) parity bytes from the public encode vs the model, host-order 16-bit words */
    for (int i = 0; i < ns; i++) {
        uint64_t L[16]; int bf; int nl = lengths_for(sh[i], thorough, L, &bf);
        int npat = thorough ? PAT_N : 3;
        for (int li = 0; li < nl; li++) for (int pat = 0; pat < npat; pat++) {
            if (li >= bf && pat) continue;
            encode_vs_reference("C04", sh[i], CHKSUM_NONE, L[li], pat == 2 ? PAT_ONES : pat, NULL, 1, 1);
        }
        { int wv[4]; int nw = w_variants(sh[i].be, wv); uint64_t a = (uint64_t)sh[i].k * 2;
          for (int q = 0; q < nw; q++) { struct shape sw = sh[i]; sw.wv = wv[q]; encode_vs_reference("C04", sw, CHKSUM_NONE, 2 * a + 3, PAT_RAMP, NULL, 0, 1); encode_vs_reference("C04", sw, CHKSUM_NONE, 1, PAT_ONES, NULL, 0, 1); } }
    }
    free(sh);
}

/* ------------------------------------------------------------------ plan C05 */
static void plan_c05(void)
{
    int thorough = !strcmp(vh_tier(), "thorough");
    struct shape sh[64]; int ns = shapes_xor(sh);
    /* table structure */
    for (int i = 0; i < ns; i++) {
        int k = sh[i].k, m = sh[i].m, hd = sh[i].hd;
        if (!vh_group_begin("S/C05/table/k%dm%dhd%d", k, m, hd)) continue;
        vh_op("init_xor_hd_code");
        xor_code_view_t *c = init_xor_hd_code(k, m, hd);
        const unsigned *gp = xor_golden_find(k, m, hd);
        if (vh_case_begin("equations")) {
            vh_nontrivial(); vh_transitions(1);
            if (!c) vh_violation("table", "init_xor_hd_code(%d,%d,%d) refused a supported shape", k, m, hd);
            else {
                for (int j = 0; j < m; j++) if (c->parity_bms[j] != gp[j]) { vh_violation("table-differs-from-golden", "parity %d equation is 0x%x, golden 0x%x", j, c->parity_bms[j], gp[j]); break; }
                for (int d = 0; d < k; d++) { unsigned t = 0; for (int j = 0; j < m; j++) if (c->parity_bms[j] >> d & 1) t |= 1u << j;
                    if (c->data_bms[d] != t) { vh_violation("tables-disagree", "data-side entry %d is 0x%x but the parity-side table says 0x%x", d, c->data_bms[d], t); break; } }
            }
        }
        if (c && vh_case_begin("distance")) {
            vh_nontrivial();
            int mind = 99; uint32_t lim = 1u << k;
            for (uint32_t d = 1; d < lim; d++) { int w = __builtin_popcount(d); if (w > hd) continue; int pw = 0; for (int j = 0; j < m; j++) pw += __builtin_popcount(d & c->parity_bms[j]) & 1; if (w + pw < mind) mind = w + pw; }
            if (mind < hd) vh_violation("distance", "in-tree (%d,%d,%d) table has minimum distance %d", k, m, hd, mind);
        }
        vh_lib_free(c);
        vh_group_end();
    }
    /* unsupported shapes are refused */
    if (vh_group_begin("S/C05/whitelist")) {
        for (int k = 0; k <= 22; k++) for (int m = 0; m <= 8; m++) for (int hd = 0; hd <= 6; hd++) {
            if (xor_golden_find(k, m, hd)) continue;
            if (!vh_case_begin("k%dm%dhd%d", k, m, hd)) continue;
            vh_nontrivial(); vh_op("liberasurecode_instance_create:flat_xor_hd"); vh_transitions(1);
            struct shape s1 = { EC_BACKEND_FLAT_XOR_HD, k, m, hd };
            int d = create_instance(&s1, CHKSUM_NONE);
            if (d > 0) { vh_violation("unsupported-shape-accepted", "create(flat_xor_hd,k=%d,m=%d,hd=%d) succeeded", k, m, hd); liberasurecode_instance_destroy(d); }
        }
        vh_group_end();
    }
    /* parity bytes and exhaustive |E| < hd recovery, payload sizes hitting 16-multiples, 8-multiples, 4-multiples */
    static const int mult[] = { 1, 3, 4, 5, 9, 25, 257 };   /* payload = 4*mult */
    struct plan pl; memset(&pl, 0, sizeof pl);
    pl.prop = "C05"; pl.strict = 1; pl.tmax_mode = 0; pl.do_decode = 1; pl.do_recon_all = 1; pl.ex_n = 32; pl.pres_mode = 1;
    int nm = thorough ? 7 : 5;
    for (int i = 0; i < ns; i++) for (int q = 0; q < nm; q++) {
        uint64_t len = (uint64_t)sh[i].k * 4 * (uint64_t)mult[q] - (q % 3);   /* also exercises zero padding of the tail */
        for (int pat = 0; pat < (thorough ? 3 : 1); pat++) {
            encode_vs_reference("C05", sh[i], CHKSUM_NONE, len, pat, NULL, 1, 1);
            if (pat == 0) explore_stripe(&pl, sh[i], q & 1 ? CHKSUM_CRC32 : CHKSUM_NONE, len, PAT_RAMP, NULL, (q == 1 || q == 2) ? 1 : 0, -1);
        }
    }
    for (int i = 0; i < ns; i++) { int wv[4]; int nw = w_variants(sh[i].be, wv);
        for (int q = 0; q < nw; q++) { struct shape sw = sh[i]; sw.wv = wv[q]; encode_vs_reference("C05", sw, CHKSUM_NONE, (uint64_t)sh[i].k * 12 - 1, PAT_RAMP, NULL, 0, 1); } }
    /* every table once more while two instances of ANOTHER table are alive (one created before it, one after): the equations an
     * instance uses must be its own */
    for (int i = 0; i < ns; i++) for (int step = 1; step <= (thorough ? 37 : 3); step += (thorough ? 1 : 1)) {
        stripe_companion = sh[(i + step * (thorough ? 1 : 11)) % ns];
        char tag[40]; snprintf(tag, sizeof tag, "C05/with-k%dm%dhd%d", stripe_companion.k, stripe_companion.m, stripe_companion.hd);
        struct plan p3 = pl; p3.prop = tag;
        explore_stripe(&p3, sh[i], CHKSUM_CRC32, (uint64_t)sh[i].k * 20 - 2, PAT_RAMP, NULL, 0, -1);
        encode_vs_reference(tag, sh[i], CHKSUM_NONE, (uint64_t)sh[i].k * 20 - 2, PAT_RAMP, NULL, 1, 1);
    }
    memset(&stripe_companion, 0, sizeof stripe_companion);
}

/* ------------------------------------------------------------------ plan C08 */
static gbuf_t c08_buf;
static void c08_len(int desc, struct shape sh, uint64_t len, int with_encode)
{
    if (!vh_case_begin("len%lu%s", (unsigned long)len, with_encode ? "+encode" : "")) return;
    uint64_t a = (uint64_t)sh.k * word_bytes(sh.be), al = (len + a - 1) / a * a;
    vh_nontrivial(); vh_transitions(3);
    vh_op("liberasurecode_get_aligned_data_size");
    int g = liberasurecode_get_aligned_data_size(desc, len);
    if ((uint64_t)g != al) vh_violation("aligned-size", "aligned(%lu) = %d, smallest multiple of %lu that is >= len is %lu", (unsigned long)len, g, (unsigned long)a, (unsigned long)al);
    vh_op("liberasurecode_get_fragment_size");
    int fs = liberasurecode_get_fragment_size(desc, (int)len);
    if ((uint64_t)fs != al / (uint64_t)sh.k) vh_violation("fragment-size", "fragment_size(%lu) = %d, expected %lu", (unsigned long)len, fs, (unsigned long)(al / (uint64_t)sh.k));
    if (with_encode) {
        gbuf_writable(&c08_buf); uint8_t *d = c08_buf.p + c08_buf.len - len; vh_fill(d, len, PAT_RAMP); gbuf_readonly(&c08_buf);
        char **ed, **ep; uint64_t fl = 0; vh_op("liberasurecode_encode"); vh_transitions(1);
        int rc = liberasurecode_encode(desc, (char *)d, len, &ed, &ep, &fl);
        if (rc != 0) vh_violation("encode-failed", "encode(len=%lu) returned %d", (unsigned long)len, rc);
        else {
            if ((uint64_t)fs + 80 != fl) vh_violation("fragment-size-vs-encode", "fragment_size(%lu)+80 = %d but encode produced fragments of %lu bytes", (unsigned long)len, fs + 80, (unsigned long)fl);
            liberasurecode_encode_cleanup(desc, ed, ep);
        }
    }
}
static void plan_c08(void)
{
    int thorough = !strcmp(vh_tier(), "thorough");
    struct shape *sh; int ns; collect_shapes(&sh, &ns, 1, 1, 1);
    ns += shapes_null(sh + ns);
    /* every shape, plus (rs_vand, flat_xor_hd, null) the same shape created with caller-supplied word sizes the backend ignores */
    int nbase = ns; sh = realloc(sh, sizeof(struct shape) * (size_t)ns * 5);
    for (int i = 0; i < nbase; i++) { int wv[4]; int nw = w_variants(sh[i].be, wv); for (int q = 0; q < nw; q++) { sh[ns] = sh[i]; sh[ns].wv = wv[q]; ns++; } }
    for (int i = 0; i < ns; i++) {
        if (!vh_group_begin("S/C08/%s/k%dm%dhd%d%s", be_name(sh[i].be), sh[i].k, sh[i].m, sh[i].hd, wtag(&sh[i]))) continue;
        int desc = create_instance(&sh[i], CHKSUM_NONE);
        if (desc <= 0) { vh_violation("create-refused", "create returned %d", desc); vh_group_end(); continue; }
        uint64_t a = (uint64_t)sh[i].k * word_bytes(sh[i].be);
        gbuf_alloc(&c08_buf, (1u << 20) + 8, GP_END);
        if (vh_case_begin("minimum")) {
            vh_nontrivial(); vh_op("liberasurecode_get_minimum_encode_size"); vh_transitions(1);
            int mn = liberasurecode_get_minimum_encode_size(desc);
            if ((uint64_t)mn != a) vh_violation("minimum-size", "minimum_encode_size = %d, aligned(1) = %lu", mn, (unsigned long)a);
        }
        for (uint64_t len = 0; len <= 4 * a + 2; len++) c08_len(desc, sh[i], len, 1);
        for (int p = 3; p <= 20; p++) {
            uint64_t P = 1ull << p; if (P <= 4 * a + 2) continue;
            if (sh[i].wv && p != 12) continue;
            uint64_t below = P / a * a, above = (P + a - 1) / a * a;
            uint64_t c[2] = { below, above };
            for (int q = 0; q < 2; q++) for (int dlt = -2; dlt <= 2; dlt++) {
                if (q == 1 && above == below) continue;
                uint64_t len = c[q] + (uint64_t)(int64_t)dlt;
                if ((int64_t)len < 0 || len > (1u << 20) + 2) continue;
                /* encoding large buffers through the byte-wise reference plug-in is slow: do it on low-parity and named shapes */
                c08_len(desc, sh[i], len, (dlt == 0 || dlt == 1) && (p <= 13 || sh[i].m <= 2 || named_shape(&sh[i])));
            }
        }
        if (thorough && named_shape(&sh[i]) && !sh[i].wv) for (uint64_t len = 0; len <= 1u << 20; len += 1) c08_len(desc, sh[i], len, 0);
        liberasurecode_instance_destroy(desc);
        gbuf_free(&c08_buf);
        /* unknown descriptors */
        int dead[] = { 0, -1, desc, INT_MAX, INT_MIN, desc + 1000 };
        static const int ulen[] = { 100, 0, 1, -1, INT_MAX };
        for (int q = 0; q < 6; q++) for (int li = 0; li < 5; li++) if (vh_case_begin("unknown-desc%d/len%d", dead[q], ulen[li])) {
            vh_nontrivial(); vh_transitions(3);
            vh_op("liberasurecode_get_fragment_size"); int r1 = liberasurecode_get_fragment_size(dead[q], ulen[li]);
            vh_op("liberasurecode_get_aligned_data_size"); int r2 = liberasurecode_get_aligned_data_size(dead[q], (uint64_t)(int64_t)ulen[li]);
            vh_op("liberasurecode_get_minimum_encode_size"); int r3 = liberasurecode_get_minimum_encode_size(dead[q]);
            if (r1 >= 0 || r2 >= 0 || r3 >= 0) vh_violation("unknown-descriptor-accepted", "size queries (length %d) on descriptor %d returned %d %d %d", ulen[li], dead[q], r1, r2, r3);
        }
        vh_group_end();
    }
    free(sh);
}

/* ------------------------------------------------------------------ plan C15s: purity on the data plane */
static void plan_c15(void)
{
    int thorough = !strcmp(vh_tier(), "thorough");
    struct plan pl; memset(&pl, 0, sizeof pl);
    pl.prop = "C15"; pl.strict = 0; pl.tmax_mode = 0; pl.do_decode = 1; pl.do_recon_all = 1; pl.ex_n = thorough ? 10 : 8; pl.pres_mode = 1;
    struct shape *sh; int ns; collect_shapes(&sh, &ns, 1, 1, 1);
    int isa_n = (int)vh_opt("isa_n", 32);
    for (int i = 0; i < ns; i++) {
        uint64_t a = (uint64_t)sh[i].k * word_bytes(sh[i].be);
        uint64_t L[3] = { 2 * a + 3, a, 0 };
        if (is_isa(sh[i].be) && sh[i].k + sh[i].m > isa_n && !named_shape(&sh[i])) continue;
        for (int li = 0; li < 3; li++) {
            /* the oracle of this plan is the guard pages + read-only inputs (faults are attributed by the supervisor) and
             * "encode again after all that activity gives the same bytes" */
            if (!vh_group_begin("S/C15/%s/k%dm%dhd%d/len%lu", be_name(sh[i].be), sh[i].k, sh[i].m, sh[i].hd, (unsigned long)L[li])) continue;
            struct stripe s;
            if (stripe_open(&s, sh[i], CHKSUM_CRC32, L[li], PAT_RAMP, NULL) == 0) {
                struct xctx x = { &s, &pl, i };
                for_erasures(s.n, sh[i].k, sh[i].m, plan_tmax(&pl, &sh[i]), pl.ex_n, on_eset, &x);
                if (vh_case_begin("metadata-and-validation-on-readonly")) {
                    vh_nontrivial();
                    for (int f = 0; f < s.n; f++) for (int place = 0; place < 3; place++) {
                        fragment_metadata_t md; vh_op("liberasurecode_get_fragment_metadata"); vh_transitions(2);
                        liberasurecode_get_fragment_metadata((char *)frag_at(&s, place, f), &md);
                        vh_op("is_invalid_fragment"); is_invalid_fragment(s.desc, (char *)frag_at(&s, place, f));
                    }
                    char **arr = place_ptrs(&s, (int[]){0}, 1, GP_END); vh_op("liberasurecode_verify_stripe_metadata");
                    liberasurecode_verify_stripe_metadata(s.desc, arr, 1);
                    /* the same fragments as an opposite-endian writer lays them out, ending at the guard page: the queries read header + payload, no more */
                    for (int f = 0; f < s.n; f += (s.n > 4 ? s.n - 1 : 1)) {
                        gbuf_t gt; uint8_t *t = gbuf_alloc(&gt, s.flen, GP_END); memcpy(t, enc_frag(&s, f), s.flen); wire_byteswap_twin(t); gbuf_readonly(&gt);
                        fragment_metadata_t md; vh_op("liberasurecode_get_fragment_metadata"); vh_transitions(2);
                        int rc = liberasurecode_get_fragment_metadata((char *)t, &md);
                        if (rc != 0 || md.chksum_mismatch) vh_violation("twin-misread", "opposite-endian twin of fragment %d: metadata query rc=%d mismatch=%d", f, rc, md.chksum_mismatch);
                        vh_op("is_invalid_fragment"); is_invalid_fragment(s.desc, (char *)t);
                        gbuf_free(&gt);
                    }
                }
                /* fragment_len smaller than a header, with buffers that really are that short and end at a PROT_NONE page */
                { static const uint64_t sl[] = { 0, 1, 40, 62, 79 };
                  for (int q = 0; q < 5; q++) if (vh_case_begin("short-fragment-len%lu", (unsigned long)sl[q])) {
                    vh_nontrivial();
                    gbuf_t gb[32]; memset(gb, 0, sizeof gb);
                    char **arr = (char **)(s.gptr.p + s.gptr.len) - s.n;
                    for (int f = 0; f < s.n; f++) { uint8_t *p = gbuf_alloc(&gb[f], sl[q], GP_END); memcpy(p, enc_frag(&s, f), sl[q]); gbuf_readonly(&gb[f]); arr[f] = (char *)p; }
                    char *out = NULL; uint64_t ol = 0; vh_op("liberasurecode_decode"); vh_transitions(2);
                    int rc = liberasurecode_decode(s.desc, arr, s.n, sl[q], q & 1, &out, &ol);
                    if (rc >= 0) { vh_violation("short-length-accepted", "decode with fragment_len=%lu returned %d", (unsigned long)sl[q], rc); if (out && ledger_has(out)) liberasurecode_decode_cleanup(s.desc, out); }
                    uint8_t *ob = s.gout.p + s.gout.len - s.flen; vh_op("liberasurecode_reconstruct_fragment");
                    rc = liberasurecode_reconstruct_fragment(s.desc, arr + 1, s.n - 1, sl[q], 0, (char *)ob);
                    if (rc >= 0) vh_violation("short-length-accepted", "reconstruct with fragment_len=%lu returned %d", (unsigned long)sl[q], rc);
                    for (int f = 0; f < s.n; f++) gbuf_free(&gb[f]);
                  } }
                if (vh_case_begin("encode-after-history")) {
                    vh_nontrivial();
                    char **d2, **p2; uint64_t fl2; vh_op("liberasurecode_encode"); vh_transitions(1);
                    int rc = liberasurecode_encode(s.desc, (char *)s.data, s.len, &d2, &p2, &fl2);
                    if (rc != 0 || fl2 != s.flen) vh_violation("history-dependent", "encode after decode/reconstruct activity: rc=%d", rc);
                    else for (int f = 0; f < s.n; f++) if (memcmp(f < sh[i].k ? d2[f] : p2[f - sh[i].k], enc_frag(&s, f), s.flen)) { vh_violation("history-dependent", "fragment %d differs from the first encode of the same data", f); break; }
                    if (rc == 0) liberasurecode_encode_cleanup(s.desc, d2, p2);
                }
            }
            stripe_close(&s, 0);
            vh_group_end();
        }
    }
    free(sh);
}

/* ------------------------------------------------------------------ plan C16s: cleanup sweeps, ledger exact */
static void plan_c16s(void)
{
    int thorough = !strcmp(vh_tier(), "thorough");
    struct shape *sh; int ns; collect_shapes(&sh, &ns, 1, 1, 1);
    /* every erasure set up to one beyond tolerance (all of them for flat-XOR and for n <= ex_n, the structured family above): decode,
     * its cleanup call, reconstruct of every missing index - the ledger must come back to where it was after every single case */
    struct plan pl; memset(&pl, 0, sizeof pl);
    pl.prop = "C16"; pl.strict = 0; pl.tmax_mode = 2; pl.do_decode = 1; pl.do_recon_missing = 1; pl.pres_mode = 1; pl.check_ledger = 1;
    int all_n = (int)vh_opt("recon_all_n", thorough ? 10 : 7);      /* up to this n every destination is rebuilt, present ones included */
    pl.ex_n = (int)vh_opt("ex_n", thorough ? 11 : 8);
    for (int i = 0; i < ns; i++) {
        uint64_t a = (uint64_t)sh[i].k * word_bytes(sh[i].be);
        struct plan p2 = pl; if (is_xor(sh[i].be)) p2.ex_n = 32;
        if (sh[i].k + sh[i].m <= all_n) { p2.do_recon_all = 1; p2.do_recon_missing = 0; }
        explore_stripe(&p2, sh[i], CHKSUM_CRC32, 2 * a + 3, PAT_RAMP, NULL, -1, -1);
    }
    /* fragments_needed for every request within tolerance + 1 of every flat-XOR table (and RS / ISA-L n <= 8), ledger compared around each query */
    needed_check_ledger = 1; plan_c06_impl(1, 1, 1, "C16fn", 8); needed_check_ledger = 0;
    for (int i = 0; i < ns; i++) {
        uint64_t a = (uint64_t)sh[i].k * word_bytes(sh[i].be);
        if (!vh_group_begin("S/C16/%s/k%dm%dhd%d", be_name(sh[i].be), sh[i].k, sh[i].m, sh[i].hd)) continue;
        struct stripe s;
        int ok = stripe_open(&s, sh[i], CHKSUM_CRC32, 2 * a + 3, PAT_RAMP, NULL) == 0;
        if (ok) {
            long c0 = ledger_count(), b0 = ledger_bytes();
            struct pres id = { O_ID, 0, D_NONE, GP_ODD, 0 };
            uint32_t Es[4] = { 0, 1u, 1u << sh[i].k, (1u << (sh[i].k - 1)) | (1u << (s.n - 1)) };
            for (int e = 0; e < 4; e++) {
                if (__builtin_popcount(Es[e]) >= (is_xor(sh[i].be) ? sh[i].hd : sh[i].m + 1)) continue;
                if (!vh_case_begin("E%x/decode-cleanup", Es[e])) continue;
                vh_nontrivial();
                int list[64]; int nf = build_list(&s, Es[e], &id, list);
                struct dec_res r = call_decode(&s, list, nf, GP_ODD, 0);
                if (r.rc == 0) { vh_op("liberasurecode_decode_cleanup"); vh_transitions(1); liberasurecode_decode_cleanup(s.desc, r.out); }
                else if (r.out && ledger_has(r.out)) vh_violation("leak", "decode failed (rc=%d) but left an allocated output buffer", r.rc);
                for (int d = 0; d < s.n; d++) { uint8_t *out; call_recon(&s, list, nf, GP_ODD, d, &out); }
                if (ledger_count() != c0 || ledger_bytes() != b0) { char dd[200]; ledger_dump(dd, sizeof dd);
                    vh_violation("leak", "decode+cleanup / reconstruct left %ld blocks, %ld bytes allocated (live sizes: %s)", ledger_count() - c0, ledger_bytes() - b0, dd); c0 = ledger_count(); b0 = ledger_bytes(); }
            }
        }
        if (vh_case_begin("encode-cleanup-destroy")) { vh_nontrivial(); stripe_close(&s, ok); } else stripe_close(&s, 0);
        vh_group_end();
    }
    free(sh);
}

/* ------------------------------------------------------------------ plan C19: injected inversion failures */
static void plan_c19_inject(void)
{
    void *h = dlopen("libisal.so.2", RTLD_NOW);
    if (!h) { fprintf(stderr, "cannot open reference plug-in\n"); exit(2); }
    long *calls = dlsym(h, "refisal_invert_calls"), *fail_at = dlsym(h, "refisal_fail_invert_at");
    if (!calls || !fail_at) { fprintf(stderr, "reference plug-in lacks control symbols\n"); exit(2); }
    int bes[2] = { EC_BACKEND_ISA_L_RS_VAND, EC_BACKEND_ISA_L_RS_CAUCHY };
    int km[][2] = { {4,2}, {2,2}, {10,4}, {3,3}, {1,3}, {2,5}, {8,8}, {20,12} };
    for (int b = 0; b < 2; b++) for (int q = 0; q < 8; q++) {
        struct shape sh = { bes[b], km[q][0], km[q][1], km[q][1] };
        if (!vh_group_begin("S/C19/inject/%s/k%dm%d", be_name(sh.be), sh.k, sh.m)) continue;
        struct stripe s;
        if (stripe_open(&s, sh, CHKSUM_CRC32, 101, PAT_RAMP, NULL) == 0) {
            /* workload: 3 decodes + 3 reconstructs, each needing one inversion; fail each position in turn, and each pair */
            uint32_t Es[3] = { 1u, 1u << sh.k, 3u };
            struct pres id = { O_ID, 0, D_NONE, GP_END, 0 };
            for (int f1 = 0; f1 <= 6; f1++) for (int f2 = f1; f2 <= 6; f2++) {
                if (f1 == 0 && f2 != 0) continue;
                if (f1 && f2 == f1) { /* single fault */ }
                if (!vh_case_begin("fail%d-%d", f1, f2 == f1 ? 0 : f2)) continue;
                int pos = 0;
                for (int step = 0; step < 6; step++) {
                    uint32_t E = Es[step % 3]; int list[64]; int nf = build_list(&s, E, &id, list);
                    pos++;
                    int inject = (pos == f1 || (f2 != f1 && pos == f2));
                    long target = *calls + 1;
                    *fail_at = inject ? target : 0;
                    long c0 = ledger_count();
                    if (step < 3) {
                        struct dec_res r = call_decode(&s, list, nf, GP_END, 0);
                        inject = inject && *calls >= target;     /* the fast path needs no inversion: nothing was made to fail */
                        if (inject) { vh_nontrivial(); if (r.rc >= 0) vh_violation("inversion-failure-ignored", "decode returned %d although matrix inversion failed", r.rc); }
                        else check_decode(&s, E, &r, 1);
                        dec_release(&s, &r);
                    } else {
                        int dest = step == 4 ? sh.k : 0;
                        uint8_t *out; int rc = call_recon(&s, list, nf, GP_END, dest, &out);
                        inject = inject && *calls >= target;
                        if (inject) { vh_nontrivial(); if (rc >= 0) vh_violation("inversion-failure-ignored", "reconstruct returned %d although matrix inversion failed", rc); }
                        else check_recon(&s, E, dest, rc, out, 1);
                    }
                    *fail_at = 0;
                    if (ledger_count() != c0) vh_violation("leak", "step %d left %ld blocks allocated", step, ledger_count() - c0);
                }
            }
        }
        stripe_close(&s, 0);
        vh_group_end();
    }
}


/* ------------------------------------------------------------------ plan C19 singular sets
 * isa_l_rs_vand's generator is not MDS for every shape: some erasure sets with |E| <= m leave a singular k x k matrix.
 * The reference (gf8 rank of the first k surviving rows) searches ALL sets with |E| <= m of every shape up to the threshold;
 * the implementation is then run on exactly the singular ones (decode, reconstruct of every missing index): it must
 * return a negative code - never success with other bytes, never a positive code, never a crash. */
struct sctx { struct stripe *s; long singular; };
static void on_sing(uint32_t E, void *ctx)
{
    struct sctx *c = ctx; struct stripe *s = c->s;
    if (!E || isa_first_k_invertible(s, E)) return;
    c->singular++;
    if (!vh_case_begin("E%x/singular", E)) return;
    vh_nontrivial(); vh_count("singular_sets", 1);
    struct pres id = { O_ID, 0, D_NONE, GP_END, 0 }; int list[64]; int nf = build_list(s, E, &id, list);
    /* decode needs the inversion only if a data fragment is missing */
    struct dec_res r = call_decode(s, list, nf, GP_END, 0);
    check_decode(s, E, &r, 0);
    if ((E & ((1u << s->sh.k) - 1)) && r.rc == 0) vh_count("singular_but_decoded_exactly", 1);
    dec_release(s, &r);
    for (int d = 0; d < s->n; d++) if (E >> d & 1) { uint8_t *out; int rc = call_recon(s, list, nf, GP_END, d, &out); check_recon(s, E, d, rc, out, 0); }
}
static void plan_c19_singular(void)
{
    int thorough = !strcmp(vh_tier(), "thorough");
    int max_n = (int)vh_opt("sing_n", thorough ? 20 : 16);
    int bes[2] = { EC_BACKEND_ISA_L_RS_VAND, EC_BACKEND_ISA_L_RS_CAUCHY };
    for (int n = 2; n <= max_n; n++) for (int k = 1; k < n; k++) for (int b = 0; b < 2; b++) {
        struct shape sh = { bes[b], k, n - k, n - k };
        if (!vh_group_begin("S/C19sing/%s/k%dm%d", be_name(sh.be), sh.k, sh.m)) continue;
        struct stripe s;
        if (stripe_open(&s, sh, CHKSUM_CRC32, (uint64_t)2 * k + 3, PAT_RAMP, NULL) == 0) {
            struct sctx c = { &s, 0 };
            enum_subsets(n, 1, sh.m, on_sing, &c);
            if (vh_case_begin("searched")) { if (c.singular) vh_nontrivial(); vh_count("shapes_searched", 1); if (c.singular) vh_count("shapes_with_singular_sets", 1); }
        }
        stripe_close(&s, 0);
        vh_group_end();
    }
}

/* ------------------------------------------------------------------ dispatch */
static void engine(void)
{
    if (ref_init()) { fprintf(stderr, "ref init failed\n"); exit(2); }
    const char *p = vh_plan();
    /* keep the GF(2^16) tables alive for the whole run: rebuilding 1 MiB of tables on every create would dominate
     * the cost; the table life cycle itself is engine H's and T's subject */
    if (vh_opt("pin_tables", 1)) init_liberasurecode_rs_vand(1, 1);
    if (!strcmp(p, "c01")) plan_roundtrip("C01", 1, 1, 1, 0);
    else if (!strcmp(p, "c02")) plan_c02(1, 1, 0, "C02");
    else if (!strcmp(p, "c03")) plan_roundtrip("C03", 1, 1, 1, 1);
    else if (!strcmp(p, "c04")) plan_c04();
    else if (!strcmp(p, "c05")) plan_c05();
    else if (!strcmp(p, "c06")) plan_c06(1, 1, 0, "C06");
    else if (!strcmp(p, "c07")) plan_c07();
    else if (!strcmp(p, "c08")) plan_c08();
    else if (!strcmp(p, "c15")) plan_c15();
    else if (!strcmp(p, "c16s")) plan_c16s();
    else if (!strcmp(p, "c19rt")) plan_roundtrip("C19rt", 0, 0, 1, 0);
    else if (!strcmp(p, "c19rc")) plan_roundtrip("C19rc", 0, 0, 1, 1);
    else if (!strcmp(p, "c19sc")) plan_c02(0, 0, 1, "C19sc");
    else if (!strcmp(p, "c19fn")) plan_c06(0, 0, 1, "C19fn");
    else if (!strcmp(p, "c19inj")) plan_c19_inject();
    else if (!strcmp(p, "c19sing")) plan_c19_singular();
    else { fprintf(stderr, "unknown plan %s\n", p); exit(2); }
}
int main(int argc, char **argv) { return vh_main(argc, argv, engine); }
