/* Tap on an instance's backend operation table: counts backend calls and can
 * make the n-th call of an operation report failure (engine X). Uses only the
 * exported lookup liberasurecode_backend_instance_get_by_desc and the public
 * layout of struct ec_backend. */
#ifndef TAP_H
#define TAP_H
enum { TAP_INIT, TAP_EXIT, TAP_ENCODE, TAP_DECODE, TAP_NEEDED, TAP_RECON, TAP_NOPS };
extern long tap_calls[TAP_NOPS];       /* per-op call counts */
extern long tap_seq;                   /* ordinal over ENCODE/DECODE/NEEDED/RECON/INIT calls */
extern long tap_fail_at[4];            /* ordinals (1-based, over tap_seq) that must fail; 0 = unused */
extern long tap_faults_fired;
extern int tap_last_failed_op;
int tap_install(int desc);             /* 0 on success */
void tap_reset(void);
/* init-fault: wraps the global backend_* common struct's ops for a backend id */
int tap_install_init(int backend_id);
void tap_uninstall_init(int backend_id);
#endif
