/* Engine A — argument-product explorer (DESIGN.md 3.A, property C13).
 * Full cross products of per-argument alphabets {valid, NULL, boundary, out-of-range}
 * for every public entry point, and the configuration box around the accepted region. */
#include <sys/mman.h>
#include "stripe.h"
#include <limits.h>

static const char *pn(const void *p) { return p ? "ok" : "NULL"; }
/* symbolic descriptor names keep case keys independent of the numbers a particular history hands out */
static const char *DN[] = { "live", "dead", "0", "-1", "INT_MAX", "INT_MIN" };

struct live { struct shape sh; struct stripe s; int dead; };

static int open_live(struct live *L, struct shape sh)
{
    L->sh = sh;
    uint64_t a = (uint64_t)sh.k * word_bytes(sh.be);
    if (stripe_open(&L->s, sh, CHKSUM_CRC32, 2 * a + 3, PAT_RAMP, NULL)) return -1;
    /* a descriptor that was live and is not any more */
    struct shape d = { EC_BACKEND_LIBERASURECODE_RS_VAND, 2, 1, 1 };
    L->dead = create_instance(&d, CHKSUM_NONE);
    liberasurecode_instance_destroy(L->dead);
    return 0;
}

#define LEDGER_BEGIN long lc0 = ledger_count(), lb0 = ledger_bytes()
#define LEDGER_END(what) do { if (ledger_count() != lc0 || ledger_bytes() != lb0) { char dd[160]; ledger_dump(dd, sizeof dd); \
    vh_violation("leak", "%s: %ld blocks / %ld bytes still allocated by the library after a refused call (live sizes %s)", what, ledger_count() - lc0, ledger_bytes() - lb0, dd); } } while (0)

static void args_encode(struct live *L)
{
    struct stripe *s = &L->s;
    int descs[] = { s->desc, L->dead, 0, -1, INT_MAX };
    uint64_t lens[] = { s->len, 0, 1 };
    for (int di = 0; di < 5; di++) for (int dp = 0; dp < 2; dp++) for (int li = 0; li < 3; li++) for (int a = 0; a < 2; a++) for (int b = 0; b < 2; b++) for (int c = 0; c < 2; c++) {
        char **ed = (char **)0x1, **ep = (char **)0x1; uint64_t fl = 0;     /* deliberately not NULL-initialised outputs */
        const char *data = dp ? NULL : (char *)s->data + (s->len - lens[li]);
        if (!vh_case_begin("desc=%s,data=%s,len=%lu,ed=%s,ep=%s,flen=%s", DN[di], pn(data), (unsigned long)lens[li], a ? "NULL" : "ok", b ? "NULL" : "ok", c ? "NULL" : "ok")) continue;
        int valid = di == 0 && !dp && !a && !b && !c;
        if (!valid) vh_nontrivial();
        LEDGER_BEGIN;
        vh_op("liberasurecode_encode"); vh_transitions(1);
        int rc = liberasurecode_encode(descs[di], data, lens[li], a ? NULL : &ed, b ? NULL : &ep, c ? NULL : &fl);
        if (valid) {
            if (rc != 0) vh_violation("valid-call-refused", "encode with valid arguments returned %d", rc);
            else { vh_op("liberasurecode_encode_cleanup"); liberasurecode_encode_cleanup(s->desc, ed, ep); }
            LEDGER_END("encode+cleanup");
        } else {
            if (rc >= 0) {
                vh_violation("invalid-arguments-accepted", "encode returned %d", rc);
                if (rc == 0 && !a && !b && di == 0) liberasurecode_encode_cleanup(s->desc, ed, ep);
            }
            LEDGER_END("encode");
        }
    }
}

/* a fragment_len shorter than the real fragments is honoured literally: the buffers handed in hold exactly that many bytes (the first
 * fragment_len bytes of the fragment) and end at a PROT_NONE page, so reading a header that was not given faults */
static gbuf_t shortbuf[4][32];
static char *short_frag(struct stripe *s, int i, int which, uint64_t len)
{
    gbuf_t *g = &shortbuf[which][i];
    if (!g->map) { uint8_t *p = gbuf_alloc(g, len, GP_END); memcpy(p, frag_at(s, GP_END, i), len); gbuf_readonly(g); }
    return (char *)g->p;
}
static void short_free(void) { for (int w = 0; w < 4; w++) for (int i = 0; i < 32; i++) gbuf_free(&shortbuf[w][i]); }

/* a fragment count <= 0 says "no fragments given": the list may then be a zero-length array (its first slot is the PROT_NONE page
 * after the pointer array) or hold pointers the caller no longer owns (here: into a PROT_NONE page); neither may be looked at */
static const char *FPN[4] = { "ok", "NULL", "empty", "dangling" };
static char **frag_list(struct stripe *s, int fp, int n, char **arr)
{
    static char *none;
    if (!none) { none = mmap(NULL, 4096, PROT_NONE, MAP_PRIVATE | MAP_ANONYMOUS, -1, 0); if (none == MAP_FAILED) { perror("mmap"); exit(2); } }
    if (fp == 1) return NULL;
    if (fp == 2) return (char **)(s->gptr.p + s->gptr.len);
    if (fp == 3) for (int i = 0; i < n; i++) arr[i] = none + 64;
    return arr;
}
static void args_decode(struct live *L)
{
    struct stripe *s = &L->s; int n = s->n, k = s->sh.k;
    int descs[] = { s->desc, L->dead, 0, -1 };
    int nfs[] = { n, k, k - 1, 1, 0, -1, INT_MIN };
    uint64_t fls[] = { s->flen, 79, 0, 1 };
    for (int di = 0; di < 4; di++) for (int fp = 0; fp < 4; fp++) for (int ni = 0; ni < 7; ni++) for (int fi = 0; fi < 4; fi++)
    for (int force = 0; force < 2; force++) for (int a = 0; a < 2; a++) for (int b = 0; b < 2; b++) {
        if (fp >= 2 && nfs[ni] > 0) continue;
        if (!vh_case_begin("desc=%s,frags=%s,n=%d,flen=%lu,force=%d,out=%s,outlen=%s", DN[di], FPN[fp], nfs[ni], (unsigned long)fls[fi], force, a ? "NULL" : "ok", b ? "NULL" : "ok")) continue;
        char **arr = (char **)(s->gptr.p + s->gptr.len) - n;
        for (int i = 0; i < n; i++) arr[i] = fi ? short_frag(s, i, fi, fls[fi]) : (char *)frag_at(s, GP_END, i);
        int valid = di == 0 && !fp && nfs[ni] >= k && fi == 0 && !a && !b;
        if (!valid) vh_nontrivial();
        char *out = NULL; uint64_t ol = 0;
        LEDGER_BEGIN;
        vh_op("liberasurecode_decode"); vh_transitions(1);
        int rc = liberasurecode_decode(descs[di], frag_list(s, fp, n, arr), nfs[ni], fls[fi], force, a ? NULL : &out, b ? NULL : &ol);
        if (valid) {
            if (rc != 0 || (s->sh.be != EC_BACKEND_NULL && (ol != s->len || memcmp(out, s->data, s->len)))) vh_violation("valid-call-refused", "decode with valid arguments returned %d", rc);
            if (rc == 0) { vh_op("liberasurecode_decode_cleanup"); liberasurecode_decode_cleanup(s->desc, out); }
            LEDGER_END("decode+cleanup");
        } else {
            if (rc >= 0) { vh_violation("invalid-arguments-accepted", "decode returned %d", rc); if (out && ledger_has(out)) liberasurecode_decode_cleanup(s->desc, out); }
            LEDGER_END("decode");
        }
    }
}

static void args_reconstruct(struct live *L)
{
    struct stripe *s = &L->s; int n = s->n, k = s->sh.k;
    int descs[] = { s->desc, L->dead, 0, -1 };
    int nfs[] = { n - 1, k, k - 1, 1, 0, -1, INT_MIN };
    uint64_t fls[] = { s->flen, 79, 0, 1 };
    int dests[] = { 0 /* the missing one */, 1, n - 1, -1, n, n + 1, INT_MAX, INT_MIN, 32, 64 };
    for (int di = 0; di < 4; di++) for (int fp = 0; fp < 4; fp++) for (int ni = 0; ni < 7; ni++) for (int fi = 0; fi < 4; fi++)
    for (int de = 0; de < 10; de++) for (int a = 0; a < 2; a++) {
        if (fp >= 2 && nfs[ni] > 0) continue;
        if (!vh_case_begin("desc=%s,frags=%s,n=%d,flen=%lu,dest=%d,out=%s", DN[di], FPN[fp], nfs[ni], (unsigned long)fls[fi], dests[de], a ? "NULL" : "ok")) continue;
        /* fragment 0 is the one left out; the list holds 1..n-1 */
        char **arr = (char **)(s->gptr.p + s->gptr.len) - n;
        for (int i = 0; i + 1 < n; i++) arr[i] = fi ? short_frag(s, i + 1, fi, fls[fi]) : (char *)frag_at(s, GP_END, i + 1);
        uint8_t *ob = s->gout.p + s->gout.len - (fls[fi] < s->flen && fls[fi] > 0 ? fls[fi] : s->flen);
        int in_range = dests[de] >= 0 && dests[de] < n;
        int enough = nfs[ni] == n - 1 || (nfs[ni] == k && n - nfs[ni] <= s->sh.m);
        int valid = di == 0 && !fp && enough && fi == 0 && in_range && !a;
        if (!valid) vh_nontrivial();
        LEDGER_BEGIN;
        vh_op("liberasurecode_reconstruct_fragment"); vh_transitions(1);
        int rc = liberasurecode_reconstruct_fragment(descs[di], frag_list(s, fp, n - 1, arr), nfs[ni], fls[fi], dests[de], a ? NULL : (char *)ob);
        int must_refuse = di != 0 || fp || a || fls[fi] < 80 || !in_range || nfs[ni] <= 0 || nfs[ni] < k;
        if (valid && nfs[ni] == n - 1) { if (rc != 0 || (s->sh.be != EC_BACKEND_NULL && memcmp(ob, enc_frag(s, dests[de]), s->flen))) vh_violation("valid-call-refused", "reconstruct with valid arguments returned %d", rc); }
        else if (must_refuse && rc >= 0) vh_violation("invalid-arguments-accepted", "reconstruct returned %d", rc);
        LEDGER_END("reconstruct");
    }
}

static void args_misc(struct live *L)
{
    struct stripe *s = &L->s; int n = s->n;
    int descs[] = { s->desc, L->dead, 0, -1, INT_MAX, INT_MIN };
    /* fragments_needed */
    for (int di = 0; di < 6; di++) for (int a = 0; a < 2; a++) for (int b = 0; b < 2; b++) for (int c = 0; c < 2; c++) {
        if (!vh_case_begin("needed/desc=%s,R=%s,X=%s,N=%s", DN[di], a ? "NULL" : "ok", b ? "NULL" : "ok", c ? "NULL" : "ok")) continue;
        int *gx = (int *)(s->gidx.p + s->gidx.len) - 1; int *gr = gx - 2; gr[0] = 0; gr[1] = -1; gx[0] = -1;
        int *N = (int *)(s->gout.p + s->gout.len) - n;
        int valid = di == 0 && !a && !b && !c; if (!valid) vh_nontrivial();
        LEDGER_BEGIN; vh_op("liberasurecode_fragments_needed"); vh_transitions(1);
        int rc = liberasurecode_fragments_needed(descs[di], a ? NULL : gr, b ? NULL : gx, c ? NULL : N);
        if (valid ? rc != 0 : rc >= 0) vh_violation(valid ? "valid-call-refused" : "invalid-arguments-accepted", "fragments_needed returned %d", rc);
        LEDGER_END("fragments_needed");
    }
    /* metadata query */
    for (int a = 0; a < 2; a++) for (int b = 0; b < 2; b++) {
        if (!vh_case_begin("metadata/frag=%s,md=%s", a ? "NULL" : "ok", b ? "NULL" : "ok")) continue;
        fragment_metadata_t md; int valid = !a && !b; if (!valid) vh_nontrivial();
        LEDGER_BEGIN; vh_op("liberasurecode_get_fragment_metadata"); vh_transitions(1);
        int rc = liberasurecode_get_fragment_metadata(a ? NULL : (char *)frag_at(s, GP_END, 0), b ? NULL : &md);
        if (valid ? rc != 0 : rc >= 0) vh_violation(valid ? "valid-call-refused" : "invalid-arguments-accepted", "get_fragment_metadata returned %d", rc);
        LEDGER_END("get_fragment_metadata");
    }
    /* validation */
    for (int di = 0; di < 6; di++) for (int a = 0; a < 2; a++) {
        if (!vh_case_begin("is_invalid_fragment/desc=%s,frag=%s", DN[di], a ? "NULL" : "ok")) continue;
        int valid = di == 0 && !a; if (!valid) vh_nontrivial();
        LEDGER_BEGIN; vh_op("is_invalid_fragment"); vh_transitions(1);
        int rc = is_invalid_fragment(descs[di], a ? NULL : (char *)frag_at(s, GP_END, 0));
        /* this predicate's documented error value is 1 */
        if (valid ? rc != 0 : rc == 0) vh_violation(valid ? "valid-call-refused" : "invalid-arguments-accepted", "is_invalid_fragment returned %d", rc);
        LEDGER_END("is_invalid_fragment");
    }
    int nfs[] = { n, 1, 0, -1, INT_MIN };
    for (int di = 0; di < 6; di++) for (int a = 0; a < 4; a++) for (int ni = 0; ni < 5; ni++) {
        if (a >= 2 && nfs[ni] > 0) continue;
        if (!vh_case_begin("verify_stripe/desc=%s,frags=%s,n=%d", DN[di], FPN[a], nfs[ni])) continue;
        char **arr = (char **)(s->gptr.p + s->gptr.len) - n;
        for (int i = 0; i < n; i++) arr[i] = (char *)frag_at(s, GP_END, i);
        int valid = di == 0 && !a && nfs[ni] > 0; if (!valid) vh_nontrivial();
        LEDGER_BEGIN; vh_op("liberasurecode_verify_stripe_metadata"); vh_transitions(1);
        int rc = liberasurecode_verify_stripe_metadata(descs[di], frag_list(s, a, n, arr), nfs[ni]);
        if (valid ? rc != 0 : rc >= 0) vh_violation(valid ? "valid-call-refused" : "invalid-arguments-accepted", "verify_stripe_metadata returned %d", rc);
        LEDGER_END("verify_stripe_metadata");
    }
    /* everything that takes only a descriptor */
    for (int di = 1; di < 6; di++) {
        if (!vh_case_begin("desc-only/desc=%s", DN[di])) continue;
        vh_nontrivial(); LEDGER_BEGIN; vh_transitions(6);
        int r[6];
        vh_op("liberasurecode_instance_destroy"); r[0] = liberasurecode_instance_destroy(descs[di]);
        vh_op("liberasurecode_encode_cleanup"); r[1] = liberasurecode_encode_cleanup(descs[di], NULL, NULL);
        vh_op("liberasurecode_decode_cleanup"); r[2] = liberasurecode_decode_cleanup(descs[di], NULL);
        vh_op("liberasurecode_get_fragment_size"); r[3] = liberasurecode_get_fragment_size(descs[di], 100);
        vh_op("liberasurecode_get_aligned_data_size"); r[4] = liberasurecode_get_aligned_data_size(descs[di], 100);
        vh_op("liberasurecode_get_minimum_encode_size"); r[5] = liberasurecode_get_minimum_encode_size(descs[di]);
        for (int i = 0; i < 6; i++) if (r[i] >= 0) vh_violation("invalid-arguments-accepted", "descriptor-only call #%d returned %d for descriptor %s", i, r[i], DN[di]);
        LEDGER_END("descriptor-only calls");
    }
    int ids[] = { -1, 9, 10, 255, INT_MAX, INT_MIN, 0, 3, 6, 1 };
    for (int i = 0; i < 10; i++) {
        if (!vh_case_begin("backend_available/%d", ids[i])) continue;
        vh_nontrivial(); LEDGER_BEGIN; vh_op("liberasurecode_backend_available"); vh_transitions(1);
        int rc = liberasurecode_backend_available((ec_backend_id_t)ids[i]);
        if (i < 6 && rc != 0) vh_violation("invalid-arguments-accepted", "backend_available(%d) returned %d", ids[i], rc);
        if ((ids[i] == 3 || ids[i] == 6 || ids[i] == 0) && rc != 1) vh_violation("valid-call-refused", "backend_available(%d) returned %d", ids[i], rc);
        LEDGER_END("backend_available");
    }
    for (int i = 0; i < 6; i++) {
        if (!vh_case_begin("create/id=%d,args=NULL", ids[i])) continue;
        vh_nontrivial(); LEDGER_BEGIN; vh_op("liberasurecode_instance_create"); vh_transitions(2);
        int rc = liberasurecode_instance_create((ec_backend_id_t)ids[i], NULL);
        if (rc >= 0) vh_violation("invalid-arguments-accepted", "create(%d, NULL) returned %d", ids[i], rc);
        struct ec_args a; memset(&a, 0, sizeof a); a.k = 4; a.m = 2; a.hd = 2; a.ct = CHKSUM_NONE;
        rc = liberasurecode_instance_create((ec_backend_id_t)ids[i], &a);
        if (rc >= 0) { vh_violation("invalid-arguments-accepted", "create(%d, k=4,m=2) returned %d", ids[i], rc); }
        LEDGER_END("create");
    }
}

/* the configuration box */
static void config_case(int be, int k, int m, int hd, int w)
{
    if (!vh_case_begin("k%d,m%d,hd%d,w%d", k, m, hd, w)) return;
    struct ec_args a; memset(&a, 0, sizeof a);
    a.k = k; a.m = m; a.hd = hd; a.w = w; a.ct = CHKSUM_CRC32;
    LEDGER_BEGIN;
    vh_op("liberasurecode_instance_create"); vh_transitions(1);
    int desc = liberasurecode_instance_create((ec_backend_id_t)be, &a);
    int unsupported = k < 1 || m < 0 || k + m > 32 || be < 0 || be >= EC_BACKENDS_MAX ||
                      (be == EC_BACKEND_FLAT_XOR_HD && !xor_golden_find(k, m, hd));
    if (desc == 0) vh_violation("zero-descriptor", "create returned 0");
    if (desc <= 0) { vh_nontrivial(); LEDGER_END("refused create"); return; }
    if (unsupported) vh_violation("unsupported-shape-accepted", "create(backend %d, k=%d, m=%d, hd=%d, w=%d) returned descriptor %d", be, k, m, hd, w, desc);
    /* accepted: it must survive a full cycle without faults */
    vh_nontrivial();
    char bn[64]; snprintf(bn, sizeof bn, "accepted-instance:backend%d", be);
    vh_op(bn); vh_transitions(8);
    int mn = liberasurecode_get_minimum_encode_size(desc);
    int fs = liberasurecode_get_fragment_size(desc, 100);
    int al = liberasurecode_get_aligned_data_size(desc, 100);
    (void)mn; (void)fs; (void)al;
    uint64_t lens[4] = { 100, 0, 1, 37 };
    for (int li = 0; li < 4; li++) {
        gbuf_t gd; uint8_t *d = gbuf_alloc(&gd, lens[li], GP_END); vh_fill(d, lens[li], PAT_RAMP); gbuf_readonly(&gd);
        char **ed = NULL, **ep = NULL; uint64_t fl = 0;
        int rc = liberasurecode_encode(desc, (char *)d, lens[li], &ed, &ep, &fl);
        if (rc == 0) {
            /* "can be used for encode, decode ...": success means the k+m fragments exist */
            int holes = !ed || (m > 0 && !ep) || fl < 80;
            for (int i = 0; !holes && i < k + m; i++) if (!(i < k ? ed[i] : ep[i - k])) holes = 1;
            if (holes) { vh_violation("encode-success-without-output", "encode(len=%lu) on an accepted (backend %d, k=%d, m=%d, w=%d) instance returned 0 but fragment pointers are NULL / fragment_len=%lu", (unsigned long)lens[li], be, k, m, w, (unsigned long)fl); if (ed || ep) liberasurecode_encode_cleanup(desc, ed, ep); gbuf_free(&gd); continue; }
            int n = k + m; char *list[64]; int nf = 0;
            /* decode from the last k fragments (uses parity when there is any), then from all */
            for (int i = n - k; i < n; i++) list[nf++] = i < k ? ed[i] : ep[i - k];
            char *out = NULL; uint64_t ol = 0;
            int r2 = liberasurecode_decode(desc, list, nf, fl, 0, &out, &ol);
            if (r2 == 0) liberasurecode_decode_cleanup(desc, out); else if (out && ledger_has(out)) liberasurecode_decode_cleanup(desc, out);
            if (m > 0 && fl >= 80 && fl < (1u << 16)) {
                char *ob = malloc(fl); nf = 0;
                for (int i = 1; i < n; i++) list[nf++] = i < k ? ed[i] : ep[i - k];
                liberasurecode_reconstruct_fragment(desc, list, nf, fl, 0, ob);
                free(ob);
            }
            int R[2] = { 0, -1 }, X[1] = { -1 }, N[40];
            liberasurecode_fragments_needed(desc, R, X, N);
            liberasurecode_encode_cleanup(desc, ed, ep);
        }
        gbuf_free(&gd);
    }
    int rc = liberasurecode_instance_destroy(desc);
    if (rc != 0) vh_violation("destroy-failed", "destroy of an accepted instance returned %d", rc);
    LEDGER_END("full cycle on an accepted configuration");
}

static void engine(void)
{
    if (ref_init()) exit(2);
    init_liberasurecode_rs_vand_pin();
    int thorough = !strcmp(vh_tier(), "thorough");
    static const struct shape lives[] = { { EC_BACKEND_LIBERASURECODE_RS_VAND, 4, 2, 2 }, { EC_BACKEND_FLAT_XOR_HD, 5, 5, 3 }, { EC_BACKEND_ISA_L_RS_VAND, 3, 2, 2 }, { EC_BACKEND_NULL, 2, 1, 1 },
                                          /* thorough only */
                                          { EC_BACKEND_LIBERASURECODE_RS_VAND, 1, 1, 1 }, { EC_BACKEND_LIBERASURECODE_RS_VAND, 10, 4, 4 }, { EC_BACKEND_LIBERASURECODE_RS_VAND, 1, 31, 31 }, { EC_BACKEND_LIBERASURECODE_RS_VAND, 2, 3, 3 },
                                          { EC_BACKEND_FLAT_XOR_HD, 3, 3, 3 }, { EC_BACKEND_FLAT_XOR_HD, 6, 6, 4 }, { EC_BACKEND_ISA_L_RS_CAUCHY, 3, 3, 3 }, { EC_BACKEND_ISA_L_RS_VAND, 2, 5, 5 } };
    int nlive = thorough ? 12 : 4;
    static void (*const fns[])(struct live *) = { args_encode, args_decode, args_reconstruct, args_misc };
    static const char *fnn[] = { "encode", "decode", "reconstruct", "misc" };
    for (int li = 0; li < nlive; li++) for (int f = 0; f < 4; f++) {
        if (!vh_group_begin("A/%s/%s-k%dm%d", fnn[f], be_name(lives[li].be), lives[li].k, lives[li].m)) continue;
        struct live L;
        if (open_live(&L, lives[li]) == 0) fns[f](&L);
        short_free();
        stripe_close(&L.s, 0);
        vh_group_end();
    }
    int bes[] = { 0, 1, 2, 3, 4, 5, 6, 7, 8, 9, 255, -1 };
    int ws[] = { 0, 4, 8, 16, 32, 1, 7, -8, 64, 9, 15, 17, 31, 33, INT_MAX, INT_MIN };
    int nw = thorough ? 16 : 5;
    /* k and m: every value in -1..33 | -2..40, plus extreme values (overflow of k+m, of k*m, of sizes derived from them) */
    static int kv[80], mv[80]; int nk = 0;
    for (int v = thorough ? -2 : -1; v <= (thorough ? 40 : 33); v++) kv[nk++] = v;
    { static const int ext[] = { INT_MAX, INT_MIN, INT_MAX - 1, 1 << 16, 1 << 30, -(1 << 30), 65535, 256, 255 }; for (int i = 0; i < (thorough ? 9 : 5); i++) kv[nk++] = ext[i]; }
    memcpy(mv, kv, sizeof kv);
    for (int bi = 0; bi < 12; bi++) for (int ki = 0; ki < nk; ki++) {
        int k = kv[ki];
        if (!vh_group_begin("A/config/backend%d/k%d", bes[bi], k)) continue;
        for (int mi = 0; mi < nk; mi++) {
            int m = mv[mi];
            if (bes[bi] == EC_BACKEND_FLAT_XOR_HD) { for (int hd = -1; hd <= 7; hd++) for (int wi = 0; wi < (hd == 3 ? nw : 1); wi++) config_case(bes[bi], k, m, hd, ws[wi]); }
            else for (int h = 0; h < 2; h++) for (int wi = 0; wi < nw; wi++) { if (h && m == 0) continue; config_case(bes[bi], k, m, h ? m : 0, ws[wi]); }
        }
        vh_group_end();
    }
}
int main(int argc, char **argv) { return vh_main(argc, argv, engine); }
