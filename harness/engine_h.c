/* Engine H — history explorer (DESIGN.md 3.H; properties C14, C16 and the history half of C15).
 * Explicit-state search over the abstract registry states (<= 4 live slots, counter preset or not);
 * every transition is a real API call made in a child forked from a pristine process.
 * plan "states": all abstract states x all operations, differential observation oracle.
 * plan "seq":    unmerged depth-bounded enumeration of operation sequences (cross-check of the abstraction).
 * plan "wrap":   unmerged enumeration of create/destroy/counter-preset sequences (descriptor allocation around the wrap). */
#include "stripe.h"
#include <limits.h>
#include <unistd.h>
#include <sys/wait.h>
#include <dlfcn.h>

extern int next_backend_desc;
extern int *log_table;
struct blist { struct ec_backend *slh_first; };
extern struct blist active_instances;

/* ------------------------------------------------------------ configurations */
struct cfg { const char *name; int be, k, m, hd; int ok; int w; };
static const struct cfg CFG[] = {
    { "rs21", EC_BACKEND_LIBERASURECODE_RS_VAND, 2, 1, 1, 1 },
    { "xor333", EC_BACKEND_FLAT_XOR_HD, 3, 3, 3, 1 },
    { "rs32", EC_BACKEND_LIBERASURECODE_RS_VAND, 3, 2, 2, 1 },
    { "isav21", EC_BACKEND_ISA_L_RS_VAND, 2, 1, 1, 1 },
    { "null21", EC_BACKEND_NULL, 2, 1, 1, 1 },
    { "xor553", EC_BACKEND_FLAT_XOR_HD, 5, 5, 3, 1 },          /* a second flat-XOR shape: two different tables alive at once */
    /* creates that must fail: before the backend is asked (shape, arguments), because its library is missing, and inside the
     * backend's own init after its library was opened (null refuses w = 4) */
    { "badxor423", EC_BACKEND_FLAT_XOR_HD, 4, 2, 3, 0 },
    { "jerasure21", EC_BACKEND_JERASURE_RS_VAND, 2, 1, 1, 0 },
    { "k20m20", EC_BACKEND_LIBERASURECODE_RS_VAND, 20, 20, 20, 0 },
    { "nullw4", EC_BACKEND_NULL, 2, 1, 1, 0, 4 },
    { "isaw4", EC_BACKEND_ISA_L_RS_VAND, 2, 1, 1, 0, 4 },
};
#define NGOOD 6
#define NCFG 11
static uint64_t golden[NGOOD];

static int cfg_create(int c)
{
    struct ec_args a; memset(&a, 0, sizeof a);
    a.k = CFG[c].k; a.m = CFG[c].m; a.hd = CFG[c].hd; a.ct = CHKSUM_CRC32; a.w = CFG[c].w;
    return liberasurecode_instance_create(CFG[c].be, &a);
}

/* ------------------------------------------------------------ the set model + concrete observation */
struct model { int n; int desc[8]; int cfg[8]; int dead[64]; int ndead; int preset; };   /* index 0 = head of the registry list (most recent) */
static struct model M;
static long base_count, base_bytes;

static int model_has(int d) { for (int i = 0; i < M.n; i++) if (M.desc[i] == d) return 1; return 0; }

static void observe(char *buf, size_t nb)
{
    /* registry in list order: (backend id, k, m, rank of descriptor among live ones) */
    size_t o = 0; int cnt = 0; int ds[64];
    for (struct ec_backend *b = active_instances.slh_first; b && cnt < 64; b = b->link.sle_next) ds[cnt++] = b->idesc;
    o += (size_t)snprintf(buf + o, nb - o, "reg[");
    int i = 0;
    for (struct ec_backend *b = active_instances.slh_first; b && i < 64; b = b->link.sle_next, i++) {
        int rank = 0; for (int j = 0; j < cnt; j++) if (ds[j] < b->idesc) rank++;
        /* after a counter wrap the numeric order of descriptors is history dependent: rank only when not preset */
        o += (size_t)snprintf(buf + o, nb - o, "(%d,%d,%d,%d)", (int)b->common.id, b->args.uargs.k, b->args.uargs.m, M.preset ? -1 : rank);
    }
    o += (size_t)snprintf(buf + o, nb - o, "] ledger=%ld/%ld tables=%d", ledger_count() - base_count, ledger_bytes() - base_bytes, log_table != NULL);
}
/* invariant: the implementation's registry equals the model, element by element */
static void check_registry(const char *after)
{
    int i = 0;
    for (struct ec_backend *b = active_instances.slh_first; b; b = b->link.sle_next, i++) {
        if (i >= M.n) { vh_violation("registry-differs-from-model", "after %s: registry holds more than the %d instances of the set model", after, M.n); return; }
        if (b->idesc != M.desc[i] || (int)b->common.id != CFG[M.cfg[i]].be || b->args.uargs.k != CFG[M.cfg[i]].k)
            { vh_violation("registry-differs-from-model", "after %s: registry entry %d is (desc %d, backend %d, k %d), model says (desc %d, %s)", after, i, b->idesc, (int)b->common.id, b->args.uargs.k, M.desc[i], CFG[M.cfg[i]].name); return; }
    }
    if (i != M.n) vh_violation("registry-differs-from-model", "after %s: registry holds %d instances, model %d", after, i, M.n);
    /* the shared library a live instance's operations point into must still be loaded (a surplus dlclose on some other path -
     * a failed create, another instance's destroy - would unmap it under the survivor) */
    int guard = 0;
    for (struct ec_backend *b = active_instances.slh_first; b && guard++ < 64; b = b->link.sle_next) {
        if (!b->common.soname || !b->common.soname[0]) continue;
        void *h = dlopen(b->common.soname, RTLD_NOLOAD | RTLD_LAZY);
        if (!h) vh_violation("live-instance-unusable", "after %s: %s, the library behind live descriptor %d, is no longer loaded", after, b->common.soname, b->idesc);
        else dlclose(h);
    }
}

/* ------------------------------------------------------------ U: use an instance, hash everything it produces */
static uint64_t mix(uint64_t h, const void *p, size_t n) { return h * 1099511628211ull ^ vh_hash(p, n); }
static uint64_t use_instance(int desc, int c, int report)
{
    const struct cfg *g = &CFG[c]; int k = g->k, m = g->m, n = k + m;
    uint64_t h = 1469598103934665603ull;
    long lc0 = ledger_count(), lb0 = ledger_bytes();
    uint64_t a = (uint64_t)k * (g->be == EC_BACKEND_LIBERASURECODE_RS_VAND ? 2 : g->be == EC_BACKEND_ISA_L_RS_VAND ? 1 : 4);
    uint64_t len = 2 * a + 3; uint8_t data[256]; vh_fill(data, len, PAT_RAMP);
    int q[3] = { liberasurecode_get_minimum_encode_size(desc), liberasurecode_get_fragment_size(desc, (int)len), liberasurecode_get_aligned_data_size(desc, len) };
    h = mix(h, q, sizeof q); vh_transitions(3);
    char **ed = NULL, **ep = NULL; uint64_t fl = 0;
    vh_op("liberasurecode_encode"); vh_transitions(1);
    int rc = liberasurecode_encode(desc, (char *)data, len, &ed, &ep, &fl);
    if (rc != 0) { if (report) vh_violation("live-instance-unusable", "%s: encode returned %d", g->name, rc); return 0; }
    char *F[32]; for (int i = 0; i < n; i++) { F[i] = i < k ? ed[i] : ep[i - k]; h = mix(h, F[i], fl); }
    /* decode: all present from unaligned copies; first data missing; last data + first parity missing with a duplicate */
    char *copies[32]; for (int i = 0; i < n; i++) { copies[i] = malloc(fl + 1); memcpy(copies[i] + 1, F[i], fl); }
    /* all present (unaligned); first data missing; last data + first parity missing (with a duplicate); two data missing; two parities missing */
    struct { int miss[2]; int nmiss; int unaligned; int dup; } ds[5] = { { {0, 0}, 0, 1, 0 }, { {0, 0}, 1, 0, 0 }, { {k - 1, k}, 2, 0, 1 }, { {0, k > 1 ? 1 : 0}, k > 1 ? 2 : 1, 1, 0 }, { {k, m > 1 ? k + 1 : k}, m > 1 ? 2 : 1, 0, 0 } };
    for (int t = 0; t < 5; t++) {
        if (ds[t].nmiss > m || (g->be == EC_BACKEND_FLAT_XOR_HD && ds[t].nmiss >= g->hd)) continue;
        char *list[40]; int nf = 0;
        for (int i = 0; i < n; i++) { int skip = 0; for (int j = 0; j < ds[t].nmiss; j++) if (ds[t].miss[j] == i) skip = 1; if (!skip) list[nf++] = ds[t].unaligned ? copies[i] + 1 : F[i]; }
        if (ds[t].dup && nf) list[nf++] = list[0];
        char *out = NULL; uint64_t ol = 0; vh_op("liberasurecode_decode"); vh_transitions(1);
        rc = liberasurecode_decode(desc, list, nf, fl, t == 2, &out, &ol);
        if (rc != 0 || (g->be != EC_BACKEND_NULL && (ol != len || memcmp(out, data, len)))) { if (report) vh_violation("live-instance-unusable", "%s: decode variant %d returned %d%s", g->name, t, rc, rc == 0 ? " with wrong data" : ""); }
        if (rc == 0) { h = mix(h, out, ol); liberasurecode_decode_cleanup(desc, out); }
    }
    int dsts[2] = { 0, k };
    for (int t = 0; t < 2; t++) {
        char *list[40]; int nf = 0; for (int i = 0; i < n; i++) if (i != dsts[t]) list[nf++] = F[i];
        char *ob = malloc(fl); vh_op("liberasurecode_reconstruct_fragment"); vh_transitions(1);
        rc = liberasurecode_reconstruct_fragment(desc, list, nf, fl, dsts[t], ob);
        if (rc != 0 || (g->be != EC_BACKEND_NULL && memcmp(ob, F[dsts[t]], fl))) { if (report) vh_violation("live-instance-unusable", "%s: reconstruct of %d returned %d%s", g->name, dsts[t], rc, rc == 0 ? " with wrong bytes" : ""); }
        if (rc == 0) h = mix(h, ob, fl);
        free(ob);
    }
    int R[2] = { 0, -1 }, X[1] = { -1 }, N[40]; memset(N, 0xff, sizeof N);
    vh_op("liberasurecode_fragments_needed"); vh_transitions(1);
    rc = liberasurecode_fragments_needed(desc, R, X, N);
    if (rc == 0) { int c2 = 0; while (c2 < 39 && N[c2] >= 0) c2++; h = mix(h, N, sizeof(int) * (size_t)c2); }
    else if (g->be != EC_BACKEND_NULL && report) vh_violation("live-instance-unusable", "%s: fragments_needed returned %d", g->name, rc);
    fragment_metadata_t md; vh_op("liberasurecode_get_fragment_metadata"); vh_transitions(3);
    rc = liberasurecode_get_fragment_metadata(F[0], &md); h = mix(h, &md, sizeof md);
    vh_op("is_invalid_fragment");
    int iv = is_invalid_fragment(desc, F[n - 1]);
    vh_op("liberasurecode_verify_stripe_metadata");
    int vs = liberasurecode_verify_stripe_metadata(desc, F, n);
    if ((rc || iv || vs) && report) vh_violation("live-instance-unusable", "%s: metadata=%d is_invalid=%d verify_stripe=%d on freshly encoded fragments", g->name, rc, iv, vs);
    /* the availability query: the back end of this live instance (its library is loaded), flat-XOR (always linked) and the
     * out-of-range id - the ones that cost no load/unload of a shared library per use */
    { int av[3]; vh_op("liberasurecode_backend_available"); vh_transitions(3);
      av[0] = liberasurecode_backend_available((ec_backend_id_t)g->be); av[1] = liberasurecode_backend_available(EC_BACKEND_FLAT_XOR_HD); av[2] = liberasurecode_backend_available(EC_BACKENDS_MAX);
      h = mix(h, av, sizeof av);
      if (report && (!av[0] || !av[1] || av[2])) vh_violation("live-instance-unusable", "%s: backend_available says %d for the back end of a live instance, %d for flat_xor_hd and %d for the out-of-range id", g->name, av[0], av[1], av[2]); }
    for (int i = 0; i < n; i++) free(copies[i]);
    liberasurecode_encode_cleanup(desc, ed, ep);
    if (report && (ledger_count() != lc0 || ledger_bytes() != lb0)) { char dd[160]; ledger_dump(dd, sizeof dd); vh_violation("leak", "%s: using the instance and cleaning up left %ld blocks / %ld bytes (live sizes %s)", g->name, ledger_count() - lc0, ledger_bytes() - lb0, dd); }
    return h;
}
static void use_and_compare(int slot, const char *when)
{
    uint64_t h = use_instance(M.desc[slot], M.cfg[slot], 1);
    if (h && golden[M.cfg[slot]] && h != golden[M.cfg[slot]]) vh_violation("history-dependent-output", "%s: outputs of the %s instance (descriptor %d) differ from those of a fresh process", when, CFG[M.cfg[slot]].name, M.desc[slot]);
}

/* every entry point on a descriptor that is not live must be refused */
static void use_dead(int d, const char *when)
{
    char *fake[2] = { NULL, NULL }; char buf[128]; memset(buf, 0, sizeof buf); fake[0] = buf; fake[1] = buf;
    char **ed = NULL, **ep = NULL; uint64_t fl = 0; char *out = NULL; uint64_t ol = 0; int R[2] = { 0, -1 }, X[1] = { -1 }, N[40];
    long lc0 = ledger_count();
    int r[12]; vh_op("dead-descriptor"); vh_transitions(12);
    r[0] = liberasurecode_encode(d, buf, 10, &ed, &ep, &fl);
    r[1] = liberasurecode_decode(d, fake, 2, 100, 0, &out, &ol);
    r[2] = liberasurecode_reconstruct_fragment(d, fake, 2, 100, 0, buf);
    r[3] = liberasurecode_fragments_needed(d, R, X, N);
    r[4] = liberasurecode_get_fragment_size(d, 10);
    r[5] = liberasurecode_get_aligned_data_size(d, 10);
    r[6] = liberasurecode_get_minimum_encode_size(d);
    r[7] = liberasurecode_encode_cleanup(d, NULL, NULL);
    r[8] = liberasurecode_decode_cleanup(d, NULL);
    r[9] = liberasurecode_verify_stripe_metadata(d, fake, 1);
    r[10] = is_invalid_fragment(d, buf) ? -1 : 0;
    r[11] = liberasurecode_instance_destroy(d);
    for (int i = 0; i < 12; i++) if (r[i] >= 0) vh_violation("dead-descriptor-accepted", "%s: entry point #%d accepted descriptor %d, which is not live (returned %d)", when, i, d, r[i]);
    if (ledger_count() != lc0) vh_violation("leak", "%s: calls on a dead descriptor changed the allocation ledger", when);
}

/* ------------------------------------------------------------ operations on the concrete + model state */
static int op_create(int c, const char *when)
{
    long lc0 = ledger_count(), lb0 = ledger_bytes();
    vh_op("liberasurecode_instance_create"); vh_transitions(1);
    int d = cfg_create(c);
    if (!CFG[c].ok) {
        if (d > 0) { vh_violation("bad-create-succeeded", "%s: create(%s) returned %d", when, CFG[c].name, d); return -1; }
        if (d == 0) vh_violation("zero-descriptor", "%s: failed create returned 0", when);
        if (ledger_count() != lc0 || ledger_bytes() != lb0) vh_violation("failed-create-left-something", "%s: failed create(%s) changed the ledger by %ld blocks / %ld bytes", when, CFG[c].name, ledger_count() - lc0, ledger_bytes() - lb0);
        check_registry(when);
        return 0;
    }
    if (d <= 0) { vh_violation("create-failed", "%s: create(%s) returned %d", when, CFG[c].name, d); return -1; }
    if (model_has(d)) { vh_violation("descriptor-not-unique", "%s: create(%s) returned descriptor %d which is already live", when, CFG[c].name, d); return -1; }
    memmove(&M.desc[1], &M.desc[0], sizeof(int) * (size_t)M.n); memmove(&M.cfg[1], &M.cfg[0], sizeof(int) * (size_t)M.n);
    M.desc[0] = d; M.cfg[0] = c; M.n++;
    for (int i = 0; i < M.ndead; i++) if (M.dead[i] == d) { M.dead[i] = M.dead[--M.ndead]; break; }   /* reissued */
    check_registry(when);
    return d;
}
static void op_destroy(int slot, const char *when)
{
    int d = M.desc[slot];
    vh_op("liberasurecode_instance_destroy"); vh_transitions(1);
    int rc = liberasurecode_instance_destroy(d);
    if (rc != 0) vh_violation("destroy-failed", "%s: destroy of live descriptor %d returned %d", when, d, rc);   /* the model drops it all the same: callers loop until the model is empty */
    memmove(&M.desc[slot], &M.desc[slot + 1], sizeof(int) * (size_t)(M.n - slot - 1)); memmove(&M.cfg[slot], &M.cfg[slot + 1], sizeof(int) * (size_t)(M.n - slot - 1));
    M.n--;
    if (rc != 0) return;
    if (M.ndead < 64) M.dead[M.ndead++] = d;
    check_registry(when);
    use_dead(d, when);
}
#define NKIND 15
static void op_error_exit(int slot, int kind, const char *when)
{
    int desc = M.desc[slot]; const struct cfg *g = &CFG[M.cfg[slot]]; int k = g->k, n = g->k + g->m;
    uint8_t data[64]; vh_fill(data, 40, PAT_RAMP);
    char **ed = NULL, **ep = NULL; uint64_t fl = 0;
    if (liberasurecode_encode(desc, (char *)data, 40, &ed, &ep, &fl)) { vh_violation("live-instance-unusable", "%s: encode failed", when); return; }
    char *F[32]; for (int i = 0; i < n; i++) F[i] = i < k ? ed[i] : ep[i - k];
    long lc0 = ledger_count(), lb0 = ledger_bytes();
    char *out = NULL; uint64_t ol = 0; int rc = 0; char *ob = malloc(fl); char *bad = malloc(fl); char *list[40];
    vh_op("error-exit"); vh_transitions(1);
    switch (kind) {
    case 0: rc = liberasurecode_decode(desc, F, k - 1, fl, 0, &out, &ol); break;                               /* too few fragments */
    case 1: for (int i = 0; i < k + 1; i++) list[i] = F[n - 1]; rc = k + g->m > 1 && k > 1 ? liberasurecode_decode(desc, list, k + 1, fl, 0, &out, &ol) : -1; break;  /* duplicates only */
    case 2: rc = liberasurecode_reconstruct_fragment(desc, F, k > 1 ? k - 1 : 0, fl, n - 1, ob); break;       /* more than m missing */
    case 3: memcpy(bad, F[0], fl); bad[2] ^= 0x40; for (int i = 0; i < n; i++) list[i] = i ? F[i] : bad; rc = liberasurecode_decode(desc, list, n, fl, 0, &out, &ol); break;  /* stale metadata CRC */
    case 4: memcpy(bad, F[0], fl); bad[54] ^= 0x0f; { uint32_t c = crc_std(bad, 59); put_le32((uint8_t *)bad + 67, c); }
            for (int i = 0; i < k; i++) list[i] = i ? F[i] : bad; rc = liberasurecode_decode(desc, list, k, fl, 1, &out, &ol); break;  /* foreign fragment, forced checks */
    case 5: rc = liberasurecode_decode(desc, NULL, n, fl, 0, &out, &ol); break;
    case 6: rc = liberasurecode_decode(desc, F, n, 79, 0, &out, &ol); break;
    /* 7-10: a rejected call is handed output variables that still hold the (already released) results of an earlier call,
     * as any caller that loops over requests with the same variables does: the library must not release them again */
    case 7: case 8: case 9: {
        char **ed2 = NULL, **ep2 = NULL; uint64_t fl2 = 0;
        if (liberasurecode_encode(desc, (char *)data, 40, &ed2, &ep2, &fl2)) { vh_violation("live-instance-unusable", "%s: encode failed", when); break; }
        liberasurecode_encode_cleanup(desc, ed2, ep2);            /* ed2/ep2 are now stale */
        lc0 = ledger_count(); lb0 = ledger_bytes();
        if (kind == 7) rc = liberasurecode_encode(desc, NULL, 40, &ed2, &ep2, &fl2);
        else if (kind == 8) rc = liberasurecode_encode(desc, (char *)data, 40, &ed2, &ep2, NULL);
        else rc = liberasurecode_encode(-1, (char *)data, 40, &ed2, &ep2, &fl2);
        break; }
    case 10: {
        char *o2 = NULL; uint64_t ol2 = 0;
        if (liberasurecode_decode(desc, F, n, fl, 0, &o2, &ol2)) { vh_violation("live-instance-unusable", "%s: decode failed", when); break; }
        liberasurecode_decode_cleanup(desc, o2);                   /* o2 is now stale */
        lc0 = ledger_count(); lb0 = ledger_bytes();
        rc = liberasurecode_decode(desc, F, k > 1 ? k - 1 : 0, fl, 0, &o2, &ol2);
        if (rc >= 0 && k == 1) rc = -1;
        break; }
    /* 12/13: the slow path has already allocated a replacement for the missing first fragment when it meets a (re-sealed) header
     * whose original length does not fit in an int: the documented bad-header error, and the replacement must be released */
    case 12: case 13: {
        memcpy(bad, F[1], fl); bad[12] = bad[13] = bad[14] = 0; bad[15] = 0x80; bad[16] = bad[17] = bad[18] = bad[19] = 0;
        { uint32_t c = crc_std(bad, 59); put_le32((uint8_t *)bad + 67, c); }
        int nf = 0; for (int i = 1; i < n; i++) list[nf++] = i == 1 ? bad : F[i];
        if (kind == 12) rc = liberasurecode_decode(desc, list, nf, fl, 0, &out, &ol);
        else rc = liberasurecode_reconstruct_fragment(desc, list, nf, fl, 0, ob);
        if (g->be == EC_BACKEND_NULL && rc >= 0) rc = -1;
        break; }
    /* 14: the caller damages the magic of a fragment encode returned (its buffers are the caller's to write), decode refuses the stripe,
     * and encode_cleanup must still release every buffer encode allocated (checked by the teardown that follows every transition) */
    case 14: F[0][59] ^= 0x5a; rc = liberasurecode_decode(desc, F, n, fl, 0, &out, &ol); break;
    /* 11: the first result is still in use when the rejected call is made with the same variables; it is released afterwards */
    case 11: {
        char **ed2 = NULL, **ep2 = NULL; uint64_t fl2 = 0;
        if (liberasurecode_encode(desc, (char *)data, 40, &ed2, &ep2, &fl2)) { vh_violation("live-instance-unusable", "%s: encode failed", when); break; }
        char **sed = ed2, **sep = ep2;
        lc0 = ledger_count(); lb0 = ledger_bytes();
        rc = liberasurecode_encode(desc, NULL, 40, &ed2, &ep2, &fl2);
        if (ledger_count() != lc0 || ledger_bytes() != lb0) vh_violation("free-of-unowned-block", "%s: a rejected encode released (or replaced) the caller's earlier, still live, encode result", when);
        else { liberasurecode_encode_cleanup(desc, sed, sep); lc0 = ledger_count(); lb0 = ledger_bytes(); }
        break; }
    }
    if (rc >= 0) vh_violation("error-exit-succeeded", "%s: error exit %d on %s returned %d", when, kind, g->name, rc);
    if (ledger_count() != lc0 || ledger_bytes() != lb0) { char dd[160]; ledger_dump(dd, sizeof dd); vh_violation("leak", "%s: error exit %d on %s left %ld blocks / %ld bytes allocated (live sizes %s)", when, kind, g->name, ledger_count() - lc0, ledger_bytes() - lb0, dd); }
    if (out && ledger_has(out)) liberasurecode_decode_cleanup(desc, out);
    free(ob); free(bad);
    liberasurecode_encode_cleanup(desc, ed, ep);
}
static void op_preset(void) { next_backend_desc = INT_MAX - 1; M.preset = 1; }

static void model_reset(void) { memset(&M, 0, sizeof M); base_count = ledger_count(); base_bytes = ledger_bytes(); }
static void teardown_and_check(const char *when)
{
    while (M.n) op_destroy(M.n - 1, when);
    if (active_instances.slh_first) vh_violation("registry-not-empty", "%s: registry not empty after destroying every instance", when);
    if (log_table) vh_violation("tables-not-released", "%s: GF tables still allocated after the last instance was destroyed", when);
    if (ledger_count() != base_count || ledger_bytes() != base_bytes) { char dd[160]; ledger_dump(dd, sizeof dd); vh_violation("leak", "%s: %ld blocks / %ld bytes still allocated after destroying every instance (live sizes %s)", when, ledger_count() - base_count, ledger_bytes() - base_bytes, dd); }
}

/* ------------------------------------------------------------ forked evaluation */
/* run fn in a child forked from this (pristine) process; the child's text output (<= 1 KiB) is returned. rc<0: child crashed */
static int in_child(void (*fn)(void *), void *arg, char *out, size_t nout)
{
    int pf[2]; if (pipe(pf)) { perror("pipe"); exit(2); }
    fflush(NULL);
    pid_t p = fork();
    if (p == 0) {
        close(pf[0]);
        fn(arg);
        extern char child_out[]; ssize_t r = write(pf[1], child_out, strlen(child_out)); (void)r;
        _exit(0);
    }
    close(pf[1]);
    size_t o = 0; ssize_t r;
    while (o + 1 < nout && (r = read(pf[0], out + o, nout - 1 - o)) > 0) o += (size_t)r;
    out[o] = 0; close(pf[0]);
    int st; waitpid(p, &st, 0);
    if (WIFSIGNALED(st)) return -WTERMSIG(st);
    if (WIFEXITED(st) && WEXITSTATUS(st)) return -1000 - WEXITSTATUS(st);
    return 0;
}
char child_out[2048];

/* abstract state: cfg indexes in registry-list order (head first) + preset flag */
struct astate { int n; int cfg[4]; int preset; };
static void astate_name(const struct astate *s, char *b, size_t nb)
{
    size_t o = (size_t)snprintf(b, nb, "%s[", s->preset ? "P" : "");
    for (int i = 0; i < s->n; i++) o += (size_t)snprintf(b + o, nb - o, "%s%s", i ? "," : "", CFG[s->cfg[i]].name);
    snprintf(b + o, nb - o, "]");
}
/* canonical history: create in reverse list order; with preset, the first half before the preset and the rest after it,
 * so that the wrapped counter has to skip live descriptors */
static void build_state(const struct astate *s)
{
    model_reset();
    int first = s->preset ? (s->n + 1) / 2 : s->n;
    for (int i = s->n - 1; i >= 0; i--) {
        if (s->preset && (s->n - 1 - i) == first) op_preset();
        op_create(s->cfg[i], "build");
    }
    if (s->preset && !M.preset) op_preset();
}

struct trans { struct astate from; int op, arg, arg2; };   /* op: 0 none(observe), 1 create cfg, 2 destroy slot, 3 use slot, 4 error exit slot kind, 5 preset, 6 failed create cfg */
static void child_transition(void *p)
{
    struct trans *t = p; char nm[96];
    build_state(&t->from);
    char before[768]; observe(before, sizeof before);
    switch (t->op) {
    case 1: op_create(t->arg, "create"); break;
    case 2: op_destroy(t->arg, "destroy"); break;
    case 3: use_and_compare(t->arg, "use"); break;
    case 4: op_error_exit(t->arg, t->arg2, "error-exit"); break;
    case 5: op_preset(); { int d = op_create(0, "create-after-preset"); (void)d; /* exercise the wrap */ if (M.n) op_destroy(0, "destroy-after-preset"); } break;
    case 6: op_create(t->arg, "failed-create"); break;
    }
    /* every live instance still round-trips after every transition */
    if (t->op == 1 || t->op == 2 || t->op == 5 || t->op == 6) for (int i = 0; i < M.n; i++) { snprintf(nm, sizeof nm, "after-op%d", t->op); use_and_compare(i, nm); }
    char after[768]; observe(after, sizeof after);
    if ((t->op == 3 || t->op == 4 || t->op == 6 || t->op == 0) && strcmp(before, after)) vh_violation("self-loop-changed-state", "operation %d must not change the observable state: before {%s} after {%s}", t->op, before, after);
    snprintf(child_out, sizeof child_out, "%s", after);
    /* whatever the transition was, destroying everything afterwards must work and leave nothing behind */
    teardown_and_check("teardown");
}

/* cache of canonical observations, per executor */
static struct { char name[96]; char obs[768]; } canon[4096]; static int ncanon;
static const char *canonical_obs(const struct astate *s)
{
    char nm[96]; astate_name(s, nm, sizeof nm);
    for (int i = 0; i < ncanon; i++) if (!strcmp(canon[i].name, nm)) return canon[i].obs;
    struct trans t; memset(&t, 0, sizeof t); t.from = *s; t.op = 0;
    char out[2048]; int rc = in_child(child_transition, &t, out, sizeof out);
    if (rc) { snprintf(out, sizeof out, "<child failed %d>", rc); }
    if (ncanon < 4096) { snprintf(canon[ncanon].name, 96, "%s", nm); snprintf(canon[ncanon].obs, 768, "%s", out); return canon[ncanon++].obs; }
    return "";
}

static void run_transition(struct trans *t, const struct astate *target, const char *label)
{
    if (!vh_case_begin("%s", label)) return;
    if (t->op != 3 && t->op != 0) vh_nontrivial(); else if (t->from.n) vh_nontrivial();
    char out[2048]; vh_op(label);
    int rc = in_child(child_transition, t, out, sizeof out);
    if (rc) { vh_violation("crash", "child running this transition died (%d)", rc); return; }
    if (target) {
        const char *want = canonical_obs(target);
        if (strcmp(want, out)) { char tn[96]; astate_name(target, tn, sizeof tn); vh_violation("same-state-different-observation", "reached %s with observation {%s}, but built canonically it looks like {%s}", tn, out, want); }
    }
}

static void golden_child(void *p)
{
    int c = *(int *)p; model_reset();
    int d = cfg_create(c); uint64_t h = d > 0 ? use_instance(d, c, 0) : 0;
    snprintf(child_out, sizeof child_out, "%lx", (unsigned long)h);
}
static void compute_golden(void)
{
    /* the outputs of each configuration in a fresh process. If that run itself crashes or produces nothing, a fresh instance is unusable:
     * reported once as a violation (group H/golden), and the golden comparison for that configuration is switched off */
    for (int c = 0; c < NGOOD; c++) {
        char out[64]; int cc = c; int rc = in_child(golden_child, &cc, out, sizeof out);
        golden[c] = rc ? 0 : strtoul(out, NULL, 16);
        if (!golden[c] && vh_group_begin("H/golden/%s", CFG[c].name)) {
            if (vh_case_begin("fresh-process")) { vh_nontrivial(); vh_op("fresh-instance"); vh_violation(rc ? "crash" : "live-instance-unusable", "create + use of a %s instance in a fresh process %s", CFG[c].name, rc ? "crashed" : "failed"); }
            vh_group_end();
        }
    }
}

static void plan_states(void)
{
    int max_slots = (int)vh_opt("slots", 4);
    compute_golden();
    /* all abstract states, simplest first */
    for (int n = 0; n <= max_slots; n++) for (int preset = 0; preset < 2; preset++) {
        long cnt = 1; for (int i = 0; i < n; i++) cnt *= NGOOD;
        for (long code = 0; code < cnt; code++) {
            struct astate s; s.n = n; s.preset = preset; long c = code; for (int i = 0; i < n; i++) { s.cfg[i] = (int)(c % NGOOD); c /= NGOOD; }
            char nm[96]; astate_name(&s, nm, sizeof nm);
            if (!vh_group_begin("H/state/%s", nm)) continue;
            struct trans t; char label[128];
            memset(&t, 0, sizeof t); t.from = s; t.op = 0; run_transition(&t, NULL, "observe+teardown");
            if (n < max_slots) for (int c2 = 0; c2 < NGOOD; c2++) {
                struct astate tg = s; memmove(&tg.cfg[1], &tg.cfg[0], sizeof(int) * (size_t)n); tg.cfg[0] = c2; tg.n = n + 1;
                memset(&t, 0, sizeof t); t.from = s; t.op = 1; t.arg = c2; snprintf(label, sizeof label, "C(%s)", CFG[c2].name); run_transition(&t, &tg, label);
            }
            for (int c2 = NGOOD; c2 < NCFG; c2++) { memset(&t, 0, sizeof t); t.from = s; t.op = 6; t.arg = c2; snprintf(label, sizeof label, "Cfail(%s)", CFG[c2].name); run_transition(&t, &s, label); }
            for (int i = 0; i < n; i++) {
                struct astate tg = s; memmove(&tg.cfg[i], &tg.cfg[i + 1], sizeof(int) * (size_t)(n - i - 1)); tg.n = n - 1;
                memset(&t, 0, sizeof t); t.from = s; t.op = 2; t.arg = i; snprintf(label, sizeof label, "D(%d)", i); run_transition(&t, &tg, label);
                memset(&t, 0, sizeof t); t.from = s; t.op = 3; t.arg = i; snprintf(label, sizeof label, "U(%d)", i); run_transition(&t, NULL, label);
                for (int kind = 0; kind < NKIND; kind++) { memset(&t, 0, sizeof t); t.from = s; t.op = 4; t.arg = i; t.arg2 = kind; snprintf(label, sizeof label, "E(%d,%d)", i, kind); run_transition(&t, &s, label); }
            }
            if (!preset) { struct astate tg = s; tg.preset = 1; memset(&t, 0, sizeof t); t.from = s; t.op = 5; snprintf(label, sizeof label, "P"); run_transition(&t, &tg, label); }
            vh_group_end();
        }
    }
}

/* ------------------------------------------------------------ plan "seq": unmerged sequences */
static const char LET[] = "abcdeuvxfy";
#define NLET 10
static int seq_step(char L, int pos)
{
    char when[32]; snprintf(when, sizeof when, "step%d:%c", pos, L);
    switch (L) {
    case 'a': case 'b': case 'c': if (M.n >= 4) return 0; op_create(L == 'a' ? 0 : L == 'b' ? 1 : (pos % 3) == 0 ? 3 : (pos % 3) == 1 ? 5 : 4, when); return 1;
    case 'd': if (!M.n) { use_dead(0, when); return 1; } op_destroy(M.n - 1, when); return 1;
    case 'e': if (!M.n) { use_dead(-1, when); return 1; } op_destroy(0, when); return 1;
    case 'u': if (!M.n) return 0; use_and_compare(0, when); return 1;
    case 'v': if (M.n < 2) return 0; use_and_compare(M.n - 1, when); return 1;
    case 'x': if (!M.n) return 0; op_error_exit(0, pos % 7, when); return 1;
    case 'y': if (!M.n) return 0; op_error_exit(M.n - 1, 7 + pos % 8, when); return 1;
    case 'f': op_create(NGOOD + pos % (NCFG - NGOOD), when); if (M.ndead) use_dead(M.dead[M.ndead - 1], when); return 1;
    }
    return 0;
}
static void child_one_seq(void *p)
{
    const char *seq = p; int depth = (int)strlen(seq);
    model_reset(); int ok = 1;
    for (int i = 0; i < depth && ok; i++) ok = seq_step(seq[i], i);
    for (int i = 0; i < M.n; i++) use_and_compare(i, "end-of-sequence");
    teardown_and_check("end-of-sequence");
    snprintf(child_out, sizeof child_out, "%d", ok);
}
static void plan_seq(void)
{
    int depth = (int)vh_opt("depth", 5);
    /* --opt reduced=1: the six letters that change the registry or look at it (create rs / xor, destroy oldest / newest, use newest,
     * failed create + dead-descriptor use), so that a greater depth stays enumerable; keys are H/seqR/... */
    int reduced = (int)vh_opt("reduced", 0); int from = (int)vh_opt("from_depth", 1);
    const char *A = reduced ? "abdeuf" : LET; int NA = (int)strlen(A);
    compute_golden();
    /* every depth from 1, so that "up to depth" is literal; each sequence runs in its own child forked from a pristine process */
    for (int d = from; d <= depth; d++) {
        int pl = d > 3 ? 3 : 1; long n2 = 1; for (int i = 0; i < pl; i++) n2 *= NA;
        long rest = 1; for (int i = 0; i < d - pl; i++) rest *= NA;
        for (long gi = 0; gi < n2; gi++) {
            char prefix[8]; long c = gi; for (int i = 0; i < pl; i++) { prefix[i] = A[c % NA]; c /= NA; } prefix[pl] = 0;
            if (!vh_group_begin("H/%s/d%d/%s", reduced ? "seqR" : "seq", d, prefix)) continue;
            for (long code = 0; code < rest; code++) {
                char seq[16]; memcpy(seq, prefix, (size_t)pl); long cc = code;
                for (int i = pl; i < d; i++) { seq[i] = A[cc % NA]; cc /= NA; }
                seq[d] = 0;
                if (!vh_case_begin("%s", seq)) continue;
                char out[64]; vh_op(seq);
                int rc = in_child(child_one_seq, seq, out, sizeof out);
                if (rc) vh_violation("crash", "child running sequence %s died (%d)", seq, rc);
                else if (out[0] == '1') vh_nontrivial(); else vh_count("pruned_sequences", 1);
            }
            vh_group_end();
        }
    }
}


/* ------------------------------------------------------------ plan "wrap": descriptor allocation around the counter wrap
 * The abstract states of plan "states" identify histories up to descriptor renaming, which is sound only as long as the
 * allocator looks every candidate value up in the registry. This plan does not merge anything: it enumerates every
 * sequence over {create xor333, create null21, destroy slot 0..3, P: counter := INT_MAX-1, W: counter := INT_MAX}
 * (P/W at most once per sequence; both values are reachable by 2^31 create/destroy pairs) up to the depth, so the wrapped
 * counter lands below, between and on live descriptors in every arrangement of <= 4 live instances. In-process, the
 * registry is emptied and the counter zeroed between sequences (and that reset is itself checked). */
static const char WLET[] = "an0123PW";
static int wrap_expect[NCFG];
static int wrap_step(char L, int pos, int *used_pw)
{
    char when[32]; snprintf(when, sizeof when, "step%d:%c", pos, L);
    switch (L) {
    case 'a': case 'n': if (M.n >= 4) return 0; return op_create(L == 'a' ? 1 : 4, when) > 0 ? 1 : -1;
    case '0': case '1': case '2': case '3': if (L - '0' >= M.n) return 0; op_destroy(L - '0', when); return 1;
    case 'P': case 'W': if (*used_pw) return 0; *used_pw = 1; next_backend_desc = L == 'P' ? INT_MAX - 1 : INT_MAX; M.preset = 1; return 1;
    }
    return 0;
}
static void wrap_identify(const char *when)
{
    /* every live descriptor must still name the instance it was handed out for */
    for (int i = 0; i < M.n; i++) {
        vh_transitions(1);
        int fs = liberasurecode_get_fragment_size(M.desc[i], 24);
        if (fs != wrap_expect[M.cfg[i]]) vh_violation("live-instance-unusable", "%s: descriptor %d (created as %s) answers the size query with %d, expected %d", when, M.desc[i], CFG[M.cfg[i]].name, fs, wrap_expect[M.cfg[i]]);
    }
}
static int wrap_run(const char *seq)
{
    model_reset(); next_backend_desc = 0;
    int used = 0, ok = 1, depth = (int)strlen(seq); long v0 = vh_violations();
    for (int i = 0; i < depth && ok > 0; i++) { ok = wrap_step(seq[i], i, &used); if (ok > 0) wrap_identify(seq); }
    if (ok > 0) for (int i = 0; i < M.n; i++) if (M.cfg[i] == 1) use_and_compare(i, "end-of-sequence");
    if (vh_violations() != v0) {
        /* model and implementation may have diverged: empty the real registry directly so that the next sequence starts clean */
        for (int g = 0; g < 64 && active_instances.slh_first; g++) liberasurecode_instance_destroy(active_instances.slh_first->idesc);
        if (active_instances.slh_first) {
            /* live instances that can no longer be destroyed: a violation in its own right; this process is of no further use, the
             * supervisor starts a fresh executor after this case */
            vh_violation("registry-not-empty", "after sequence %s the registry still holds instances that destroy refuses", seq);
            fflush(NULL); _exit(3);
        }
        return 1;
    }
    while (M.n) op_destroy(M.n - 1, "teardown");
    if (active_instances.slh_first) vh_violation("registry-not-empty", "registry not empty after destroying every instance");
    if (ledger_count() != base_count || ledger_bytes() != base_bytes) vh_violation("leak", "%ld blocks / %ld bytes still allocated after destroying every instance", ledger_count() - base_count, ledger_bytes() - base_bytes);
    return ok;
}
static void plan_wrap(void)
{
    int depth = (int)vh_opt("depth", 7);
    compute_golden();
    { int c[2] = { 1, 4 }; for (int j = 0; j < 2; j++) { int d = cfg_create(c[j]); wrap_expect[c[j]] = liberasurecode_get_fragment_size(d, 24); liberasurecode_instance_destroy(d); if (wrap_expect[c[j]] <= 0) { fprintf(stderr, "wrap: size query failed\n"); exit(2); } } }
    int NL = (int)strlen(WLET);
    for (int d = 1; d <= depth; d++) {
        int pl = d > 3 ? 3 : 1; long n2 = 1; for (int i = 0; i < pl; i++) n2 *= NL;
        long rest = 1; for (int i = 0; i < d - pl; i++) rest *= NL;
        for (long gi = 0; gi < n2; gi++) {
            char prefix[8]; long c = gi; for (int i = 0; i < pl; i++) { prefix[i] = WLET[c % NL]; c /= NL; } prefix[pl] = 0;
            /* a prefix that is itself not executable has no executable extension: skip the whole group without claiming work */
            { int live = 0, used = 0, bad = 0; for (int i = 0; i < pl && !bad; i++) { char L = prefix[i]; if (L == 'a' || L == 'n') { if (live >= 4) bad = 1; else live++; } else if (L == 'P' || L == 'W') { if (used) bad = 1; used = 1; } else { if (L - '0' >= live) bad = 1; else live--; } } if (bad) continue; }
            if (!vh_group_begin("H/wrap/d%d/%s", d, prefix)) continue;
            for (long code = 0; code < rest; code++) {
                char seq[16]; memcpy(seq, prefix, (size_t)pl); long cc = code;
                for (int i = pl; i < d; i++) { seq[i] = WLET[cc % NL]; cc /= NL; }
                seq[d] = 0;
                /* static executability (same rule as wrap_step) so that pruned sequences cost nothing and are not counted as cases */
                { int live = 0, used = 0, bad = 0; for (int i = 0; i < d && !bad; i++) { char L = seq[i]; if (L == 'a' || L == 'n') { if (live >= 4) bad = 1; else live++; } else if (L == 'P' || L == 'W') { if (used) bad = 1; used = 1; } else { if (L - '0' >= live) bad = 1; else live--; } } if (bad) { vh_count("pruned_sequences", 1); continue; } }
                if (!vh_case_begin("%s", seq)) continue;
                vh_op(seq);
                if (wrap_run(seq) > 0) { if (strpbrk(seq, "PW")) vh_nontrivial(); } else { fprintf(stderr, "wrap: static and dynamic executability disagree on %s\n", seq); exit(2); }
            }
            vh_group_end();
        }
    }
}

static void engine(void)
{
    if (ref_init()) exit(2);
    const char *p = vh_plan();
    if (!strcmp(p, "states")) plan_states();
    else if (!strcmp(p, "seq")) plan_seq();
    else if (!strcmp(p, "wrap")) plan_wrap();
    else { fprintf(stderr, "unknown plan %s\n", p); exit(2); }
}
int main(int argc, char **argv) { return vh_main(argc, argv, engine); }
