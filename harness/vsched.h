#ifndef VSCHED_H
#define VSCHED_H
#define SCHED_MAXT 4
#define SCHED_MAXPOINTS 4096
enum { SK_START = 100, SK_END, SK_RDLOCK, SK_WRLOCK, SK_MUTEX, SK_UNLOCK };
struct sched_point { unsigned char nen, cur_en, chosen, kind; signed char tid; };
struct sched_trace {
    int npoints, deadlock, diverged, overflow, switches;
    struct sched_point pt[SCHED_MAXPOINTS];
    /* filled by the harness after the threads have joined */
    int finished; unsigned long long outcome_hash;
};
void sched_init(struct sched_trace *tr, const unsigned char *prefix, int nprefix, int nthreads);
void sched_thread_begin(int tid);
void sched_thread_end(int tid);
void sched_run_all(void);
int sched_is_active(void);
void sched_yield_point(int point);
void sched_resolve_locks(void);   /* call once before any thread is started */
#endif
