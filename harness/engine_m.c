/* Engine M — allocation-failure enumerator (extension of DESIGN.md 3.X to the one environment answer the front end checks
 * everywhere: a memory request that is refused).
 *
 * For every public call of a scripted workload the requests the FRONT END (liberasurecode.so.1: erasurecode*.c and the back-end
 * adapters compiled into it) makes during that call are counted in a fault-free execution; then the call is repeated once for
 * every position i with exactly the i-th request refused, and once for every i with the i-th and all later requests refused
 * (sustained shortage). Requests made inside the separately loaded code libraries (libXorcode, liberasurecode_rs_vand, the
 * reference ISA-L plug-in) are not refused: those libraries do not check their allocations and no listed property says anything
 * about them under memory shortage.
 *
 * Oracle per injected call: no crash; the call returns a negative code, or it returns 0 and then its results are exact; it never
 * releases memory it does not own (the caller's fragments, a stale pointer) - the ledger reports that; after a failure nothing the
 * call allocated is still allocated and the caller owes no cleanup; the same call repeated without a fault succeeds with exact
 * results (the instance is undamaged). */
#include "stripe.h"
#include <limits.h>

struct blist { struct ec_backend *slh_first; };
extern struct blist active_instances;
static int registry_len(void) { int n = 0; for (struct ec_backend *b = active_instances.slh_first; b && n < 4096; b = b->link.sle_next) n++; return n; }   /* bounded: a corrupted (cyclic) list must not hang the harness */

enum { C_CREATE, C_ENCODE, C_DEC_FAST, C_DEC_SLOW, C_DEC_FORCED, C_REC_DATA, C_REC_PARITY, C_NEEDED, C_META, NCALL };
static const char *CN[NCALL] = { "create", "encode", "decode-all-present", "decode-data0-missing-unaligned", "decode-forced-checks-two-missing", "reconstruct-data0", "reconstruct-parity0-unaligned", "fragments_needed", "metadata+validation" };

/* runs call `c` once; returns rc; *exact = results equal the reference (when rc == 0). Cleans up what a successful call returned. */
static int do_call(struct stripe *s, int c, int *exact, int *desc_out)
{
    struct shape sh = s->sh; int n = s->n, k = sh.k; *exact = 1;
    char **arr = (char **)(s->gptr.p + s->gptr.len) - 2 * n; int nf = 0;
    char opn[96];
    switch (c) {
    case C_CREATE: {
        vh_op("liberasurecode_instance_create"); vh_transitions(1);
        int d = create_instance(&sh, CHKSUM_CRC32); *desc_out = d;
        return d > 0 ? 0 : d == 0 ? 1 : d; }
    case C_ENCODE: {
        char **ed = NULL, **ep = NULL; uint64_t fl = 0;
        snprintf(opn, sizeof opn, "liberasurecode_encode:%s", be_name(sh.be)); vh_op(opn); vh_transitions(1);
        int rc = liberasurecode_encode(s->desc, (char *)s->data, s->len, &ed, &ep, &fl);
        if (rc == 0) {
            if (fl != s->flen) *exact = 0;
            else for (int i = 0; i < n; i++) if (memcmp(i < k ? ed[i] : ep[i - k], enc_frag(s, i), fl)) *exact = 0;
            liberasurecode_encode_cleanup(s->desc, ed, ep);
        }
        return rc; }
    case C_DEC_FAST: case C_DEC_SLOW: case C_DEC_FORCED: {
        uint32_t E = c == C_DEC_FAST ? 0 : c == C_DEC_SLOW ? 1u : (sh.m > 1 && !(is_xor(sh.be) && sh.hd < 3) ? (1u | 1u << k) : 1u);
        for (int i = 0; i < n; i++) if (!(E >> i & 1)) arr[nf++] = (char *)frag_at(s, c == C_DEC_SLOW ? GP_ODD : GP_END, i);
        char *out = NULL; uint64_t ol = 0;
        snprintf(opn, sizeof opn, "liberasurecode_decode:%s", be_name(sh.be)); vh_op(opn); vh_transitions(1);
        int rc = liberasurecode_decode(s->desc, arr, nf, s->flen, c == C_DEC_FORCED, &out, &ol);
        if (rc == 0) {
            if (sh.be != EC_BACKEND_NULL && (ol != s->len || !out || memcmp(out, s->data, s->len))) *exact = 0;
            if (out && ledger_has(out)) liberasurecode_decode_cleanup(s->desc, out); else if (sh.be != EC_BACKEND_NULL || !out) *exact = 0;
        } else if (out && ledger_has(out)) { vh_violation("half-done", "%s failed (rc=%d) but left an output buffer for the caller to release", CN[c], rc); liberasurecode_decode_cleanup(s->desc, out); }
        return rc; }
    case C_REC_DATA: case C_REC_PARITY: {
        int dest = c == C_REC_DATA ? 0 : k;
        for (int i = 0; i < n; i++) if (i != dest) arr[nf++] = (char *)frag_at(s, c == C_REC_PARITY ? GP_ODD : GP_END, i);
        uint8_t *ob = s->gout.p + s->gout.len - s->flen; memset(ob, 0xEE, s->flen);
        snprintf(opn, sizeof opn, "liberasurecode_reconstruct_fragment:%s", be_name(sh.be)); vh_op(opn); vh_transitions(1);
        int rc = liberasurecode_reconstruct_fragment(s->desc, arr, nf, s->flen, dest, (char *)ob);
        if (rc == 0 && sh.be != EC_BACKEND_NULL && memcmp(ob, enc_frag(s, dest), s->flen)) *exact = 0;
        return rc; }
    case C_NEEDED: {
        int *gx = (int *)(s->gidx.p + s->gidx.len) - 2; int *gr = gx - 2; gr[0] = 0; gr[1] = -1; gx[0] = k > 1 ? 1 : -1; gx[1] = -1;
        int *N = (int *)(s->gout.p + s->gout.len) - n; for (int i = 0; i < n; i++) N[i] = -77;
        snprintf(opn, sizeof opn, "liberasurecode_fragments_needed:%s", be_name(sh.be)); vh_op(opn); vh_transitions(1);
        int rc = liberasurecode_fragments_needed(s->desc, gr, gx, N);
        if (rc == 0 && sh.be != EC_BACKEND_NULL) { uint32_t m = 0; int t = -1; for (int i = 0; i < n; i++) { if (N[i] == -1) { t = i; break; } if (N[i] < 0 || N[i] >= n) { *exact = 0; break; } m |= 1u << N[i]; } if (t < 0 || (m & 1u) || (k > 1 && (m & 2u))) *exact = 0; }
        return rc; }
    case C_META: {
        fragment_metadata_t md; vh_op("liberasurecode_get_fragment_metadata"); vh_transitions(3);
        int rc = liberasurecode_get_fragment_metadata((char *)frag_at(s, GP_END, 0), &md);
        if (rc == 0 && (md.idx != 0 || md.orig_data_size != s->len || md.chksum_mismatch)) *exact = 0;
        vh_op("is_invalid_fragment"); int iv = is_invalid_fragment(s->desc, (char *)frag_at(s, GP_END, n - 1));
        for (int i = 0; i < n; i++) arr[nf++] = (char *)frag_at(s, GP_END, i);
        vh_op("liberasurecode_verify_stripe_metadata"); int vs = liberasurecode_verify_stripe_metadata(s->desc, arr, nf);
        if (rc == 0 && iv == 0 && vs == 0) return 0;
        /* under a refused request these may fail, but only with an error verdict */
        return rc < 0 ? rc : vs < 0 ? vs : iv ? -1 : 0; }
    }
    return 0;
}

static void inject(struct stripe *s, int c, long at, long from)
{
    if (!vh_case_begin("%s/%s%ld", CN[c], from ? "from" : "at", from ? from : at)) return;
    long c0 = ledger_count(), b0 = ledger_bytes(); int r0 = registry_len();
    int exact = 1, d = -1;
    alloc_seen = 0; alloc_failed = 0; alloc_fail_at = at; alloc_fail_from = from;
    int rc = do_call(s, c, &exact, &d);
    alloc_fail_at = alloc_fail_from = 0;
    long fired = alloc_failed;
    if (fired) vh_nontrivial();
    if (rc > 0) vh_violation("positive-rc", "%s with request #%ld%s refused returned the positive code %d", CN[c], from ? from : at, from ? " and all later ones" : "", rc);
    else if (rc == 0 && !exact) vh_violation("success-without-result", "%s with request #%ld%s refused returned 0 but its results are missing or differ from the fault-free ones", CN[c], from ? from : at, from ? " and all later ones" : "");
    if (c == C_CREATE) {
        if (rc == 0) { liberasurecode_instance_destroy(d); }
        else if (registry_len() != r0) vh_violation("half-done", "failed create left an instance in the registry");
    }
    if (ledger_count() != c0 || ledger_bytes() != b0) { char dd[160]; ledger_dump(dd, sizeof dd);
        vh_violation(rc < 0 ? "half-done" : "leak", "%s with request #%ld%s refused (rc=%d): %ld blocks / %ld bytes remain allocated (live sizes %s)", CN[c], from ? from : at, from ? " and all later ones" : "", rc, ledger_count() - c0, ledger_bytes() - b0, dd); }
    /* the same call again, nothing refused: must work and be exact */
    alloc_seen = 0; exact = 1; d = -1;
    int rc2 = do_call(s, c, &exact, &d);
    if (c == C_CREATE && rc2 == 0) liberasurecode_instance_destroy(d);
    if (rc2 != 0 || !exact) vh_violation("next-call-failed", "%s repeated after the refused request returned %d%s", CN[c], rc2, rc2 == 0 ? " with wrong results" : "");
}

static void engine(void)
{
    if (ref_init()) exit(2);
    init_liberasurecode_rs_vand_pin();
    int thorough = !strcmp(vh_tier(), "thorough");
    static struct shape cfgs[600]; int ncfg = 0;
    int small_n = (int)vh_opt("small_n", thorough ? 8 : 5);
    static const int bes[3] = { EC_BACKEND_LIBERASURECODE_RS_VAND, EC_BACKEND_ISA_L_RS_VAND, EC_BACKEND_ISA_L_RS_CAUCHY };
    for (int n = 2; n <= small_n; n++) for (int k = 1; k < n; k++) for (int b = 0; b < 3; b++) { struct shape t = { bes[b], k, n - k, n - k }; cfgs[ncfg++] = t; }
    { static const struct shape extra[] = { { EC_BACKEND_FLAT_XOR_HD, 3, 3, 3 }, { EC_BACKEND_FLAT_XOR_HD, 5, 5, 3 }, { EC_BACKEND_FLAT_XOR_HD, 6, 6, 4 }, { EC_BACKEND_NULL, 2, 1, 1 },
                                            { EC_BACKEND_LIBERASURECODE_RS_VAND, 10, 4, 4 }, { EC_BACKEND_LIBERASURECODE_RS_VAND, 4, 10, 10 }, { EC_BACKEND_FLAT_XOR_HD, 10, 5, 4 }, { EC_BACKEND_ISA_L_RS_VAND, 10, 4, 4 } };
      for (int i = 0; i < 8; i++) cfgs[ncfg++] = extra[i]; }
    long callmask = vh_opt("calls", (1 << NCALL) - 1);
    for (int ci = 0; ci < ncfg; ci++) {
        struct shape sh = cfgs[ci];
        if (!vh_group_begin("M/%s/k%dm%dhd%d", be_name(sh.be), sh.k, sh.m, sh.hd)) continue;
        struct stripe s; uint64_t a = (uint64_t)sh.k * word_bytes(sh.be);
        if (stripe_open(&s, sh, CHKSUM_CRC32, 2 * a + 3, PAT_RAMP, NULL) == 0) {
            gbuf_free(&s.gptr); gbuf_alloc(&s.gptr, 128 * sizeof(char *), GP_END);
            for (int i = 0; i < s.n; i++) { frag_at(&s, GP_END, i); frag_at(&s, GP_ODD, i); }     /* placements are harness allocations: make them before counting */
            alloc_fault_scope((void *)liberasurecode_encode);
            for (int c = 0; c < NCALL; c++) {
                if (!(callmask >> c & 1)) continue;
                /* fault-free execution: counts the front end's requests during this call */
                int exact = 1, d = -1; long N = 0;
                if (vh_case_begin("%s/none", CN[c])) {
                    alloc_seen = 0; alloc_fail_at = alloc_fail_from = 0;
                    int rc = do_call(&s, c, &exact, &d); N = alloc_seen;
                    if (c == C_CREATE && rc == 0) liberasurecode_instance_destroy(d);
                    if (rc != 0 || !exact) { vh_violation("next-call-failed", "%s without any refused request returned %d", CN[c], rc); continue; }
                    vh_count("front_end_requests_in_workload", N);
                } else { alloc_seen = 0; int rc = do_call(&s, c, &exact, &d); N = alloc_seen; if (c == C_CREATE && rc == 0) liberasurecode_instance_destroy(d); }
                for (long i = 1; i <= N; i++) inject(&s, c, i, 0);
                for (long i = 1; i <= N; i++) inject(&s, c, 0, i);
            }
            alloc_fault_scope(NULL);
        }
        stripe_close(&s, 0);
        vh_group_end();
    }
}
int main(int argc, char **argv) { return vh_main(argc, argv, engine); }
