#include "tap.h"
#include "erasurecode.h"
#include "erasurecode_backend.h"
#include <string.h>

extern ec_backend_t ec_backends_supported[];

long tap_calls[TAP_NOPS];
long tap_seq;
long tap_fail_at[4];
long tap_faults_fired;
int tap_last_failed_op = -1;

static int must_fail(int op)
{
    tap_seq++;
    for (int i = 0; i < 4; i++)
        if (tap_fail_at[i] && tap_fail_at[i] == tap_seq) { tap_faults_fired++; tap_last_failed_op = op; return 1; }
    return 0;
}
void tap_reset(void)
{
    memset(tap_calls, 0, sizeof tap_calls); tap_seq = 0; memset(tap_fail_at, 0, sizeof tap_fail_at);
    tap_faults_fired = 0; tap_last_failed_op = -1;
}

static struct ec_backend_op_stubs *orig[EC_BACKENDS_MAX];
static struct ec_backend_op_stubs mine[EC_BACKENDS_MAX];

#define DEFTAP(B) \
static void *t_init_##B(struct ec_backend_args *a, void *so) { tap_calls[TAP_INIT]++; \
    if (must_fail(TAP_INIT)) return NULL; return orig[B]->init(a, so); } \
static int t_exit_##B(void *d) { tap_calls[TAP_EXIT]++; return orig[B]->exit(d); } \
static int t_encode_##B(void *d, char **da, char **pa, int bs) { tap_calls[TAP_ENCODE]++; \
    if (must_fail(TAP_ENCODE)) return -1; return orig[B]->encode(d, da, pa, bs); } \
static int t_decode_##B(void *d, char **da, char **pa, int *mi, int bs) { tap_calls[TAP_DECODE]++; \
    if (must_fail(TAP_DECODE)) return -1; return orig[B]->decode(d, da, pa, mi, bs); } \
static int t_needed_##B(void *d, int *mi, int *ex, int *nd) { tap_calls[TAP_NEEDED]++; \
    if (must_fail(TAP_NEEDED)) return -1; return orig[B]->fragments_needed(d, mi, ex, nd); } \
static int t_recon_##B(void *d, char **da, char **pa, int *mi, int di, int bs) { tap_calls[TAP_RECON]++; \
    if (must_fail(TAP_RECON)) return -1; return orig[B]->reconstruct(d, da, pa, mi, di, bs); } \
static void fill_##B(void) { mine[B] = *orig[B]; mine[B].init = t_init_##B; mine[B].exit = t_exit_##B; \
    mine[B].encode = t_encode_##B; mine[B].decode = t_decode_##B; mine[B].fragments_needed = t_needed_##B; \
    mine[B].reconstruct = t_recon_##B; }
DEFTAP(0) DEFTAP(1) DEFTAP(2) DEFTAP(3) DEFTAP(4) DEFTAP(5) DEFTAP(6) DEFTAP(7) DEFTAP(8)
static void (*fillers[EC_BACKENDS_MAX])(void) = { fill_0, fill_1, fill_2, fill_3, fill_4, fill_5, fill_6, fill_7, fill_8 };

int tap_install_init(int id)
{
    if (id < 0 || id >= EC_BACKENDS_MAX) return -1;
    struct ec_backend_common *c = &ec_backends_supported[id]->common;
    if (c->ops == &mine[id]) return 0;
    orig[id] = c->ops;
    fillers[id]();
    c->ops = &mine[id];
    return 0;
}
void tap_uninstall_init(int id)
{
    if (id < 0 || id >= EC_BACKENDS_MAX) return;
    struct ec_backend_common *c = &ec_backends_supported[id]->common;
    if (c->ops == &mine[id]) c->ops = orig[id];
}
int tap_install(int desc)
{
    ec_backend_t be = liberasurecode_backend_instance_get_by_desc(desc);
    if (!be) return -1;
    int id = be->common.id;
    if (id < 0 || id >= EC_BACKENDS_MAX) return -1;
    if (be->common.ops == &mine[id]) return 0;
    orig[id] = be->common.ops;
    fillers[id]();
    be->common.ops = &mine[id];
    return 0;
}
