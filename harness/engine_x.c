/* Engine X — backend-fault enumerator (DESIGN.md 3.X, property C17).
 * The instance's operation table is tapped; the n-th backend call (init, encode, decode,
 * reconstruct, fragments_needed) is made to report failure. Deviation-bounded: 0 faults,
 * every single position, every pair of positions over a scripted workload. */
#include <dlfcn.h>
#include "stripe.h"
#include <limits.h>

struct blist { struct ec_backend *slh_first; };
extern struct blist active_instances;
static int registry_len(void) { int n = 0; for (struct ec_backend *b = active_instances.slh_first; b && n < 4096; b = b->link.sle_next) n++; return n; }   /* bounded: a corrupted (cyclic) list must not hang the harness */

struct gold { uint64_t enc, dec[2], rec[2], need; };
static struct gold G; static int have_gold;

static uint64_t mix(uint64_t h, const void *p, size_t n) { return h * 1099511628211ull ^ vh_hash(p, n); }

/* one run of the workload under the currently armed faults; golden = 1 records the expected outputs */
static void workload(struct stripe *ref, int golden)
{
    struct shape sh = ref->sh; int n = ref->n, k = sh.k;
    long base_c = ledger_count(), base_b = ledger_bytes(); int base_reg = registry_len();
    int desc = -1;
    /* S1: create (retried: "the next call succeeds") */
    for (int attempt = 0; attempt < 4 && desc <= 0; attempt++) {
        long f0 = tap_faults_fired; long c0 = ledger_count(), b0 = ledger_bytes(); int r0 = registry_len();
        vh_op("liberasurecode_instance_create"); vh_transitions(1);
        desc = create_instance(&sh, CHKSUM_CRC32);
        if (tap_faults_fired > f0) {
            vh_nontrivial();
            if (desc > 0) { vh_violation("backend-failure-ignored", "create returned descriptor %d although the backend's init reported failure", desc); }
            else {
                if (desc == 0) vh_violation("backend-failure-ignored", "create returned 0 after a failed backend init");
                if (ledger_count() != c0 || ledger_bytes() != b0) vh_violation("half-done", "failed backend init left %ld blocks / %ld bytes allocated", ledger_count() - c0, ledger_bytes() - b0);
                if (registry_len() != r0) vh_violation("half-done", "failed backend init left an instance in the registry");
            }
        } else if (desc <= 0) { vh_violation("next-call-failed", "create without an injected fault returned %d", desc); return; }
    }
    if (desc <= 0) { vh_violation("next-call-failed", "create kept failing"); return; }

#define STEP(NAME, CALL, ONFAULT_EXTRA, ONOK) \
    for (int attempt = 0, done = 0; attempt < 4 && !done; attempt++) { \
        long f0 = tap_faults_fired; long c0 = ledger_count(), b0 = ledger_bytes(); \
        vh_op(NAME); vh_transitions(1); \
        int rc = (CALL); \
        if (tap_faults_fired > f0) { \
            vh_nontrivial(); \
            if (rc >= 0) vh_violation("backend-failure-ignored", "%s returned %d although the backend operation reported failure", NAME, rc); \
            ONFAULT_EXTRA; \
            if (ledger_count() != c0 || ledger_bytes() != b0) { char dd[160]; ledger_dump(dd, sizeof dd); \
                vh_violation("half-done", "%s: after the failed call %ld blocks / %ld bytes remain allocated without any cleanup call (live sizes %s)", NAME, ledger_count() - c0, ledger_bytes() - b0, dd); } \
        } else { done = 1; if (rc != 0) vh_violation("next-call-failed", "%s without an injected fault returned %d", NAME, rc); else { ONOK; } } \
    }

    /* S2/S7: encode */
    for (int round = 0; round < 2; round++) {
        char **ed = NULL, **ep = NULL; uint64_t fl = 0;
        STEP("liberasurecode_encode", liberasurecode_encode(desc, (char *)ref->data, ref->len, &ed, &ep, &fl),
             { if (rc == 0) liberasurecode_encode_cleanup(desc, ed, ep); },
             { uint64_t h = 1; for (int i = 0; i < n; i++) h = mix(h, i < k ? ed[i] : ep[i - k], fl);
               if (golden) G.enc = h; else if (h != G.enc) vh_violation("continuation-differs", "encode output differs from the fault-free run");
               liberasurecode_encode_cleanup(desc, ed, ep); });
        if (round == 0) {
            /* S3: decode with data 0 missing, unaligned inputs; S8 later: two missing */
        }
        uint32_t E = round == 0 ? 1u : ((1u << (k - 1)) | (sh.m > 1 ? 1u << k : 0));
        if (is_xor(sh.be) && __builtin_popcount(E) >= sh.hd) E = 1u << (k - 1);
        char **arr = (char **)(ref->gptr.p + ref->gptr.len) - n; int nf = 0;
        for (int i = 0; i < n; i++) if (!(E >> i & 1)) arr[nf++] = (char *)frag_at(ref, round ? GP_END : GP_ODD, i);
        char *out = NULL; uint64_t ol = 0;
        STEP("liberasurecode_decode", liberasurecode_decode(desc, arr, nf, ref->flen, 0, &out, &ol),
             { if (out && ledger_has(out)) { vh_violation("half-done", "failed decode left an output buffer for the caller to release"); liberasurecode_decode_cleanup(desc, out); } out = NULL; },
             { uint64_t h = mix(ol, out, ol);
               if (golden) G.dec[round] = h; else if (h != G.dec[round]) vh_violation("continuation-differs", "decode output differs from the fault-free run");
               liberasurecode_decode_cleanup(desc, out); out = NULL; });
        /* S4/S5: reconstruct a data fragment (round 0) / a parity fragment (round 1) */
        int dest = round == 0 ? 0 : k; nf = 0;
        for (int i = 0; i < n; i++) if (i != dest) arr[nf++] = (char *)frag_at(ref, GP_END, i);
        uint8_t *ob = ref->gout.p + ref->gout.len - ref->flen;
        STEP("liberasurecode_reconstruct_fragment", liberasurecode_reconstruct_fragment(desc, arr, nf, ref->flen, dest, (char *)ob), { },
             { uint64_t h = mix(7, ob, ref->flen);
               if (golden) G.rec[round] = h; else if (h != G.rec[round]) vh_violation("continuation-differs", "reconstruct output differs from the fault-free run"); });
        if (round == 0) {
            int *gx = (int *)(ref->gidx.p + ref->gidx.len) - 1; int *gr = gx - 2; gr[0] = 0; gr[1] = -1; gx[0] = -1;
            int *N = (int *)(ref->gout.p + ref->gout.len) - n; for (int i = 0; i < n; i++) N[i] = -1;
            STEP("liberasurecode_fragments_needed", liberasurecode_fragments_needed(desc, gr, gx, N), { },
                 { int c = 0; while (c < n && N[c] >= 0) c++; uint64_t h = mix(9, N, sizeof(int) * (size_t)c);
                   if (golden) G.need = h; else if (h != G.need) vh_violation("continuation-differs", "fragments_needed answer differs from the fault-free run"); });
        }
    }
    vh_op("liberasurecode_instance_destroy"); vh_transitions(1);
    int rc = liberasurecode_instance_destroy(desc);
    if (rc != 0) vh_violation("next-call-failed", "destroy returned %d", rc);
    if (ledger_count() != base_c || ledger_bytes() != base_b) { char dd[160]; ledger_dump(dd, sizeof dd); vh_violation("half-done", "after the whole workload %ld blocks / %ld bytes remain allocated (live sizes %s)", ledger_count() - base_c, ledger_bytes() - base_b, dd); }
    if (registry_len() != base_reg) vh_violation("half-done", "registry length changed by %d over the workload", registry_len() - base_reg);
}

static void engine(void)
{
    if (ref_init()) exit(2);
    init_liberasurecode_rs_vand_pin();
    int thorough = !strcmp(vh_tier(), "thorough");
    /* every (k,m) with k+m <= small_n for the three matrix backends (so k < m, k == m, k > m, k == 1 and m == 1 all occur), the
     * flat-XOR representatives of each table family, null, and a few larger shapes */
    static struct shape cfgs[1200]; int ncfg = 0;
    int small_n = (int)vh_opt("small_n", thorough ? 16 : 10);
    static const int bes[3] = { EC_BACKEND_LIBERASURECODE_RS_VAND, EC_BACKEND_ISA_L_RS_VAND, EC_BACKEND_ISA_L_RS_CAUCHY };
    for (int n = 2; n <= small_n; n++) for (int k = 1; k < n; k++) for (int b = 0; b < 3; b++) { struct shape t = { bes[b], k, n - k, n - k }; cfgs[ncfg++] = t; }
    { static const struct shape extra[] = { { EC_BACKEND_FLAT_XOR_HD, 3, 3, 3 }, { EC_BACKEND_FLAT_XOR_HD, 5, 5, 3 }, { EC_BACKEND_FLAT_XOR_HD, 6, 6, 4 }, { EC_BACKEND_NULL, 2, 1, 1 },
                                            { EC_BACKEND_LIBERASURECODE_RS_VAND, 10, 4, 4 }, { EC_BACKEND_LIBERASURECODE_RS_VAND, 4, 10, 10 }, { EC_BACKEND_ISA_L_RS_VAND, 3, 12, 12 },
                                            { EC_BACKEND_FLAT_XOR_HD, 10, 5, 4 }, { EC_BACKEND_FLAT_XOR_HD, 12, 6, 4 }, { EC_BACKEND_FLAT_XOR_HD, 15, 6, 3 } };
      for (int i = 0; i < (thorough ? 10 : 7); i++) cfgs[ncfg++] = extra[i]; }
    int triples_n = (int)vh_opt("triples_n", thorough ? 16 : 6);
    /* init failures that the back ends report themselves (not injected): unsupported flat-XOR shapes, word sizes the null and
     * isa-l back ends refuse. Same demands: negative code, nothing left allocated, registry unchanged, and a following
     * create / encode / decode / destroy of a good instance of the same back end behaves normally. */
    if (vh_group_begin("X/genuine-init-failures")) {
        static const struct { int be, k, m, hd, w; } bad[] = {
            { EC_BACKEND_FLAT_XOR_HD, 4, 4, 3, 0 }, { EC_BACKEND_FLAT_XOR_HD, 12, 5, 4, 0 }, { EC_BACKEND_FLAT_XOR_HD, 3, 3, 4, 0 }, { EC_BACKEND_FLAT_XOR_HD, 21, 6, 4, 0 },
            { EC_BACKEND_FLAT_XOR_HD, 16, 6, 3, 0 }, { EC_BACKEND_FLAT_XOR_HD, 5, 5, 2, 0 }, { EC_BACKEND_NULL, 2, 1, 1, 4 }, { EC_BACKEND_NULL, 2, 1, 1, 7 },
            { EC_BACKEND_ISA_L_RS_VAND, 2, 1, 1, 4 }, { EC_BACKEND_ISA_L_RS_CAUCHY, 3, 2, 2, 7 }, { EC_BACKEND_ISA_L_RS_VAND, 20, 12, 12, 4 } };
        static const struct shape good[] = { { EC_BACKEND_FLAT_XOR_HD, 3, 3, 3 }, { EC_BACKEND_NULL, 2, 1, 1 }, { EC_BACKEND_ISA_L_RS_VAND, 2, 1, 1 }, { EC_BACKEND_ISA_L_RS_CAUCHY, 3, 2, 2 } };
        for (int rep = 1; rep <= 3; rep++) for (unsigned b = 0; b < sizeof bad / sizeof bad[0]; b++) {
            if (!vh_case_begin("%s/k%dm%dhd%dw%d/x%d", be_name(bad[b].be), bad[b].k, bad[b].m, bad[b].hd, bad[b].w, rep)) continue;
            vh_nontrivial();
            long c0 = ledger_count(), b0 = ledger_bytes(); int r0 = registry_len();
            for (int i = 0; i < rep; i++) {
                struct ec_args a; memset(&a, 0, sizeof a); a.k = bad[b].k; a.m = bad[b].m; a.hd = bad[b].hd; a.w = bad[b].w; a.ct = CHKSUM_CRC32;
                vh_op("liberasurecode_instance_create"); vh_transitions(1);
                int d = liberasurecode_instance_create(bad[b].be, &a);
                if (d >= 0) { vh_violation("backend-failure-ignored", "create returned %d although the back end's init refuses this configuration", d); if (d > 0) liberasurecode_instance_destroy(d); }
            }
            if (ledger_count() != c0 || ledger_bytes() != b0) { char dd[160]; ledger_dump(dd, sizeof dd); vh_violation("half-done", "%d failed create(s) left %ld blocks / %ld bytes allocated (live sizes %s)", rep, ledger_count() - c0, ledger_bytes() - b0, dd); }
            if (registry_len() != r0) vh_violation("half-done", "failed create left an instance in the registry");
            for (unsigned g = 0; g < sizeof good / sizeof good[0]; g++) {
                if (good[g].be != bad[b].be) continue;
                struct stripe st; uint64_t a2 = (uint64_t)good[g].k * word_bytes(good[g].be);
                if (stripe_open(&st, good[g], CHKSUM_CRC32, 2 * a2 + 3, PAT_RAMP, NULL)) vh_violation("next-call-failed", "a good %s instance cannot be created / encoded after the failed create", be_name(good[g].be));
                else {
                    char **arr = (char **)(st.gptr.p + st.gptr.len) - st.n; int nf = 0; for (int i = 1; i < st.n; i++) arr[nf++] = (char *)frag_at(&st, GP_END, i);
                    char *out = NULL; uint64_t ol = 0; vh_op("liberasurecode_decode"); vh_transitions(1);
                    int rc = liberasurecode_decode(st.desc, arr, nf, st.flen, 0, &out, &ol);
                    if (rc != 0 || (good[g].be != EC_BACKEND_NULL && (ol != st.len || memcmp(out, st.data, st.len)))) vh_violation("next-call-failed", "decode on a good %s instance after the failed create returned %d%s", be_name(good[g].be), rc, rc == 0 ? " with wrong data" : "");
                    if (rc == 0) liberasurecode_decode_cleanup(st.desc, out);
                }
                stripe_close(&st, 1);
            }
        }
        vh_group_end();
    }
    /* decode / reconstruct failures that the flat-XOR back end reports itself (not injected): every erasure set of hd and hd+1
     * fragments. When the back end gives up the public call must return a negative code having released everything, and the
     * instance must go on working; when it does not give up the result must be exact. */
    { static const struct shape xs[] = { { EC_BACKEND_FLAT_XOR_HD, 3, 3, 3 }, { EC_BACKEND_FLAT_XOR_HD, 5, 5, 3 }, { EC_BACKEND_FLAT_XOR_HD, 6, 6, 4 }, { EC_BACKEND_FLAT_XOR_HD, 10, 5, 3 }, { EC_BACKEND_FLAT_XOR_HD, 6, 5, 4 }, { EC_BACKEND_FLAT_XOR_HD, 10, 5, 4 }, { EC_BACKEND_FLAT_XOR_HD, 12, 6, 4 } };
      for (int xi = 0; xi < (thorough ? 7 : 5); xi++) {
        struct shape sh = xs[xi]; int n = sh.k + sh.m;
        if (!vh_group_begin("X/genuine-decode-failures/k%dm%dhd%d", sh.k, sh.m, sh.hd)) continue;
        struct stripe st; uint64_t a2 = (uint64_t)sh.k * 4;
        if (stripe_open(&st, sh, CHKSUM_CRC32, 2 * a2 + 3, PAT_RAMP, NULL) == 0) {
            for (int sz = sh.hd; sz <= sh.hd + 1 && sz <= sh.m; sz++) {
                uint64_t v = (1ull << sz) - 1, lim = 1ull << n;
                while (v < lim) {
                    uint32_t E = (uint32_t)v;
                    uint64_t c = v & -v, r = v + c; v = (((r ^ v) >> 2) / c) | r;
                    if (!vh_case_begin("E%x", E)) continue;
                    char **arr = (char **)(st.gptr.p + st.gptr.len) - n; int nf = 0;
                    for (int i = 0; i < n; i++) if (!(E >> i & 1)) arr[nf++] = (char *)frag_at(&st, GP_END, i);
                    long c0 = ledger_count(), b0 = ledger_bytes();
                    char *out = NULL; uint64_t ol = 0; vh_op("liberasurecode_decode"); vh_transitions(1);
                    int rc = liberasurecode_decode(st.desc, arr, nf, st.flen, 0, &out, &ol);
                    if (rc < 0) { vh_nontrivial();
                        if (out && ledger_has(out)) { vh_violation("half-done", "decode E=0x%x failed (rc=%d) but left an output buffer for the caller", E, rc); liberasurecode_decode_cleanup(st.desc, out); }
                        if (ledger_count() != c0 || ledger_bytes() != b0) { char dd[160]; ledger_dump(dd, sizeof dd); vh_violation("half-done", "decode E=0x%x failed (rc=%d) and left %ld blocks / %ld bytes allocated without any cleanup call (live sizes %s)", E, rc, ledger_count() - c0, ledger_bytes() - b0, dd); }
                    } else if (rc > 0 || ol != st.len || memcmp(out, st.data, st.len)) vh_violation("backend-failure-ignored", "decode E=0x%x returned %d with data that is not the original", E, rc);
                    if (rc == 0) liberasurecode_decode_cleanup(st.desc, out);
                    for (int d = 0; d < n; d++) if (E >> d & 1) {
                        uint8_t *ob = st.gout.p + st.gout.len - st.flen; c0 = ledger_count(); b0 = ledger_bytes();
                        vh_op("liberasurecode_reconstruct_fragment"); vh_transitions(1);
                        rc = liberasurecode_reconstruct_fragment(st.desc, arr, nf, st.flen, d, (char *)ob);
                        if (rc == 0 && memcmp(ob, enc_frag(&st, d), st.flen)) vh_violation("backend-failure-ignored", "reconstruct E=0x%x dest=%d returned 0 with a fragment that is not the original", E, d);
                        if (rc > 0) vh_violation("backend-failure-ignored", "reconstruct E=0x%x dest=%d returned the positive code %d", E, d, rc);
                        if (ledger_count() != c0 || ledger_bytes() != b0) { char dd[160]; ledger_dump(dd, sizeof dd); vh_violation("half-done", "reconstruct E=0x%x dest=%d (rc=%d) left %ld blocks / %ld bytes allocated (live sizes %s)", E, d, rc, ledger_count() - c0, ledger_bytes() - b0, dd); }
                        if (rc < 0) vh_nontrivial();
                        break;
                    }
                    /* the instance still works */
                    nf = 0; for (int i = 1; i < n; i++) arr[nf++] = (char *)frag_at(&st, GP_END, i);
                    out = NULL; rc = liberasurecode_decode(st.desc, arr, nf, st.flen, 0, &out, &ol); vh_transitions(1);
                    if (rc != 0 || ol != st.len || memcmp(out, st.data, st.len)) vh_violation("next-call-failed", "after E=0x%x: a decode with one fragment missing returned %d%s", E, rc, rc == 0 ? " with wrong data" : "");
                    if (rc == 0) liberasurecode_decode_cleanup(st.desc, out);
                }
            }
        }
        stripe_close(&st, 1);
        vh_group_end();
      } }
    /* failures the ISA-L adapters meet inside themselves (not at the back-end boundary): gf_invert_matrix reporting failure -
     * made to fail through the reference plug-in's control symbols at the 1st inversion of a decode / reconstruct, and genuinely,
     * on survivor sets whose k x k matrix is singular (isa_l_rs_vand is not MDS for m >= 5). Same demands as everywhere in this
     * engine: negative code, no output left for the caller, nothing left allocated, the instance goes on working. */
    { void *h = dlopen("libisal.so.2", RTLD_NOW);
      long *calls = h ? dlsym(h, "refisal_invert_calls") : NULL, *fail_at = h ? dlsym(h, "refisal_fail_invert_at") : NULL;
      if (!calls || !fail_at) { fprintf(stderr, "reference plug-in lacks control symbols\n"); exit(2); }
      static const struct { struct shape sh; uint32_t sing; } is[] = {
          { { EC_BACKEND_ISA_L_RS_VAND, 4, 2, 2 }, 0 }, { { EC_BACKEND_ISA_L_RS_CAUCHY, 3, 3, 3 }, 0 }, { { EC_BACKEND_ISA_L_RS_VAND, 2, 5, 5 }, 0 },
          { { EC_BACKEND_ISA_L_RS_VAND, 6, 5, 5 }, (1u << 0) | (1u << 2) | (1u << 5) | (1u << 7) | (1u << 8) },
          { { EC_BACKEND_ISA_L_RS_VAND, 10, 5, 5 }, (1u << 0) | (1u << 2) | (1u << 5) | (1u << 11) | (1u << 12) } };
      for (unsigned xi = 0; xi < sizeof is / sizeof is[0]; xi++) {
        struct shape sh = is[xi].sh; int n = sh.k + sh.m;
        if (!vh_group_begin("X/isa-inversion-failures/%s/k%dm%d", be_name(sh.be), sh.k, sh.m)) continue;
        struct stripe st;
        if (stripe_open(&st, sh, CHKSUM_CRC32, 2 * (uint64_t)sh.k + 3, PAT_RAMP, NULL) == 0) {
            uint32_t Es[4] = { 1u, 3u & ((1u << n) - 1), 1u | 1u << sh.k, is[xi].sing };
            for (int ei = 0; ei < 4; ei++) for (int inj = 0; inj < 2; inj++) {
                uint32_t E = Es[ei]; if (!E || __builtin_popcount(E) > sh.m) continue;
                if (ei == 3 && inj) continue;                         /* the singular set fails by itself */
                if (ei < 3 && !inj) continue;
                if (!vh_case_begin("E%x/%s", E, inj ? "injected" : "singular")) continue;
                char **arr = (char **)(st.gptr.p + st.gptr.len) - n; int nf = 0;
                for (int i = 0; i < n; i++) if (!(E >> i & 1)) arr[nf++] = (char *)frag_at(&st, GP_END, i);
                for (int step = 0; step < 3; step++) {
                    /* step 0: decode; 1: reconstruct the lowest missing index; 2: reconstruct the highest missing index */
                    int dest = step == 1 ? __builtin_ctz(E) : 31 - __builtin_clz(E);
                    long c0 = ledger_count(), b0 = ledger_bytes(), target = *calls + 1; *fail_at = inj ? target : 0;
                    char *out = NULL; uint64_t ol = 0; int rc; uint8_t *ob = st.gout.p + st.gout.len - st.flen;
                    vh_op(step ? "liberasurecode_reconstruct_fragment" : "liberasurecode_decode"); vh_transitions(1);
                    if (step == 0) rc = liberasurecode_decode(st.desc, arr, nf, st.flen, 0, &out, &ol);
                    else rc = liberasurecode_reconstruct_fragment(st.desc, arr, nf, st.flen, dest, (char *)ob);
                    int failed = inj ? *calls >= target : 1;           /* a call that needed no inversion was not made to fail */
                    *fail_at = 0;
                    if (!failed) { if (rc != 0) vh_violation("next-call-failed", "step %d returned %d although nothing failed", step, rc); }
                    else { vh_nontrivial();
                        if (rc >= 0 && inj) vh_violation("backend-failure-ignored", "%s E=0x%x returned %d although matrix inversion failed", step ? "reconstruct" : "decode", E, rc);
                        if (rc == 0 && !inj && (step ? memcmp(ob, enc_frag(&st, dest), st.flen) != 0 : (ol != st.len || memcmp(out, st.data, st.len)))) vh_violation("backend-failure-ignored", "%s E=0x%x (singular survivor matrix) returned 0 with wrong bytes", step ? "reconstruct" : "decode", E);
                        if (rc < 0 && out && ledger_has(out)) { vh_violation("half-done", "decode E=0x%x failed (rc=%d) but left an output buffer for the caller", E, rc); liberasurecode_decode_cleanup(st.desc, out); out = NULL; }
                    }
                    if (step == 0 && rc == 0) liberasurecode_decode_cleanup(st.desc, out);
                    if (ledger_count() != c0 || ledger_bytes() != b0) { char dd[160]; ledger_dump(dd, sizeof dd); vh_violation("half-done", "%s E=0x%x (rc=%d): %ld blocks / %ld bytes remain allocated without any cleanup call (live sizes %s)", step ? "reconstruct" : "decode", E, rc, ledger_count() - c0, ledger_bytes() - b0, dd); }
                }
                /* the instance still works */
                nf = 0; for (int i = 1; i < n; i++) arr[nf++] = (char *)frag_at(&st, GP_END, i);
                char *out = NULL; uint64_t ol = 0; int rc = liberasurecode_decode(st.desc, arr, nf, st.flen, 0, &out, &ol); vh_transitions(1);
                if (rc != 0 || ol != st.len || memcmp(out, st.data, st.len)) vh_violation("next-call-failed", "after E=0x%x: a decode with one fragment missing returned %d%s", E, rc, rc == 0 ? " with wrong data" : "");
                if (rc == 0) liberasurecode_decode_cleanup(st.desc, out);
            }
        }
        stripe_close(&st, 1);
        vh_group_end();
      } }
    /* variant 1: the same workload on data whose every 64-byte block carries the fragment-header magic at offset 59 (a payload that
     * "looks like a header" must not confuse the pointer bookkeeping of the error paths); single faults only */
    for (int variant = 0; variant < 2; variant++) for (int ci = 0; ci < ncfg; ci++) {
        struct shape sh = cfgs[ci];
        if (variant && sh.k + sh.m > 8) continue;
        if (!vh_group_begin("X/%s/k%dm%dhd%d%s", be_name(sh.be), sh.k, sh.m, sh.hd, variant ? "/header-magic-data" : "")) continue;
        /* pristine reference stripe from an untapped instance of the same configuration */
        struct stripe ref; uint64_t a = (uint64_t)sh.k * word_bytes(sh.be);
        have_gold = 0;
        if (stripe_open(&ref, sh, CHKSUM_CRC32, variant ? (uint64_t)sh.k * 64 : 2 * a + 3, variant ? PAT_MAGIC : PAT_RAMP, NULL)) { stripe_close(&ref, 0); vh_group_end(); continue; }
        tap_install_init(sh.be);
        long N = 0;
        if (vh_case_begin("fail@none") || 1) {
            tap_reset(); workload(&ref, 1); N = tap_seq; have_gold = 1;
            vh_count("backend_calls_in_workload", N);
        }
        for (long f1 = 1; f1 <= N; f1++) {
            if (vh_case_begin("fail@%ld", f1)) { tap_reset(); tap_fail_at[0] = f1; workload(&ref, 0); if (!tap_faults_fired) vh_violation("harness", "fault at %ld never fired", f1); }
        }
        if (!variant) for (long f1 = 1; f1 <= N; f1++) for (long f2 = f1 + 1; f2 <= N + 2; f2++) {
            if (vh_case_begin("fail@%ld,%ld", f1, f2)) { tap_reset(); tap_fail_at[0] = f1; tap_fail_at[1] = f2; workload(&ref, 0); }
        }
        if (!variant && sh.k + sh.m <= triples_n) for (long f1 = 1; f1 <= N; f1++) for (long f2 = f1 + 1; f2 <= N + 1; f2++) for (long f3 = f2 + 1; f3 <= N + 2; f3++) {
            if (vh_case_begin("fail@%ld,%ld,%ld", f1, f2, f3)) { tap_reset(); tap_fail_at[0] = f1; tap_fail_at[1] = f2; tap_fail_at[2] = f3; workload(&ref, 0); }
        }
        tap_reset();
        tap_uninstall_init(sh.be);
        stripe_close(&ref, 0);
        vh_group_end();
    }
}
int main(int argc, char **argv) { return vh_main(argc, argv, engine); }
