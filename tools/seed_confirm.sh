#!/bin/sh
# seed_confirm.sh <worktree> <patch.diff> <run_demo.sh>
# Independent confirmation of a seeded change in a scratch worktree (never /repo):
#   demo passes on the clean tree; with the patch the tree builds, `make test` exits 0, and the demo fails.
wt="$1"; patch="$2"; demo="$3"
cd "$wt" || exit 2
git checkout -- . && make -j8 >/dev/null 2>&1 || { echo "clean build failed"; exit 2; }
sh "$demo" "$wt" >/dev/null 2>&1; d0=$?
git apply "$patch" || { echo "patch does not apply"; exit 2; }
make -j8 >/tmp/seed_confirm_build.$$ 2>&1; b=$?
warn=$(grep -c "warning:" /tmp/seed_confirm_build.$$); rm -f /tmp/seed_confirm_build.$$
make test >/dev/null 2>&1; t=$?
sh "$demo" "$wt" >/dev/null 2>&1; d1=$?
git checkout -- . && make -j8 >/dev/null 2>&1
echo "demo_clean=$d0 build=$b warnings=$warn make_test=$t demo_patched=$d1"
[ $d0 -eq 0 ] && [ $b -eq 0 ] && [ $t -eq 0 ] && [ $d1 -ne 0 ] && echo CONFIRMED || echo NOT-CONFIRMED
