#!/bin/sh
# seed_eval.sh <patch.diff> <check> [<check> ...]
# Applies a seeded change to /repo's working tree, runs the named quick checks, and ALWAYS restores /repo.
# Prints one line per check: "<check> DETECTED|missed exit=<n> <first violation site>".
set -u
patch="$1"; shift
cd /verif || exit 2
if [ -n "$(git -C /repo status --porcelain --untracked-files=no)" ]; then echo "/repo has uncommitted changes to tracked files; refusing" >&2; exit 2; fi
git -C /repo apply "$patch" || { echo "patch does not apply" >&2; exit 2; }
trap 'git -C /repo checkout -- . ' EXIT INT TERM
for c in "$@"; do
    out=$(./vcheck "$c" --tier quick 2>&1); rc=$?
    site=$(printf '%s\n' "$out" | grep -m1 'site:' | cut -c1-160)
    key=$(printf '%s\n' "$out" | grep -m1 'key=' | cut -c1-160)
    if [ $rc -eq 1 ]; then echo "$c DETECTED exit=$rc $key $site"; elif [ $rc -eq 0 ]; then echo "$c missed exit=0"; else echo "$c HARNESS-ERROR exit=$rc $(printf '%s\n' "$out" | tail -3 | cut -c1-300)"; fi
done
