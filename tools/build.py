#!/usr/bin/env python3
"""Build a flavour of the library under test from $VERIF_REPO's *working tree*
(default /repo) plus a harness executable, into one build directory.

Nothing from the autotools build products in the repository is used: every
object is compiled here, so an edited source file is always what gets checked.
"""
import os, subprocess, sys, hashlib, shutil
from concurrent.futures import ThreadPoolExecutor

VERIF = os.path.dirname(os.path.dirname(os.path.abspath(__file__)))
REPO = os.environ.get("VERIF_REPO", "/repo")
GUARD = "LIBERASURECODE_VERIF"

PROJECT_FLAGS = ("-O2 -g -D_GNU_SOURCE=1 -std=c99 -w -mmmx -DINTEL_MMX -msse -DINTEL_SSE "
                 "-msse2 -DINTEL_SSE2 -msse3 -DINTEL_SSE3 -mssse3 -DINTEL_SSSE3 -msse4.1 "
                 "-DINTEL_SSE41 -msse4.2 -DINTEL_SSE42 -mavx -DINTEL_AVX -DARCH_64 -fPIC").split()

WRAP = ("-Wl,--wrap=malloc,--wrap=calloc,--wrap=realloc,--wrap=free,--wrap=posix_memalign,--wrap=strdup,"
        "--wrap=aligned_alloc,--wrap=memalign,--wrap=valloc,--wrap=strndup,--wrap=reallocarray,--wrap=asprintf,--wrap=vasprintf")

LIBS = {
    "libXorcode.so.1": ["src/builtin/xor_codes/xor_code.c", "src/builtin/xor_codes/xor_hd_code.c"],
    "libnullcode.so.1": ["src/builtin/null_code/null_code.c"],
    "liberasurecode_rs_vand.so.1": ["src/builtin/rs_vand/liberasurecode_rs_vand.c",
                                    "src/builtin/rs_vand/rs_galois.c"],
    "liberasurecode.so.1": [
        "src/erasurecode.c", "src/erasurecode_helpers.c", "src/erasurecode_preprocessing.c",
        "src/erasurecode_postprocessing.c", "src/utils/chksum/crc32.c", "src/utils/chksum/alg_sig.c",
        "src/backends/null/null.c", "src/backends/xor/flat_xor_hd.c",
        "src/backends/jerasure/jerasure_rs_vand.c", "src/backends/jerasure/jerasure_rs_cauchy.c",
        "src/backends/isa-l/isa_l_common.c", "src/backends/isa-l/isa_l_rs_vand.c",
        "src/backends/isa-l/isa_l_rs_cauchy.c", "src/backends/rs_vand/liberasurecode_rs_vand.c",
        "src/builtin/rs_vand/rs_galois.c", "src/backends/shss/shss.c", "src/backends/phazrio/libphazr.c"],
}

SAN = {
    "asan": ["-fsanitize=address", "-fno-omit-frame-pointer"],
    "tsan": ["-fsanitize=thread"],
    "plain": [],
}


def incs():
    d = [os.path.join(VERIF, "ref", "cfg")]
    for s in ("erasurecode", "xor_codes", "rs_vand", "isa_l", "shss"):
        d.append(os.path.join(REPO, "include", s))
    return ["-I" + x for x in d]


def run(cmd, **kw):
    r = subprocess.run(cmd, stdout=subprocess.PIPE, stderr=subprocess.STDOUT, text=True, **kw)
    if r.returncode != 0:
        sys.stderr.write("BUILD FAILED: %s\n%s\n" % (" ".join(cmd), r.stdout))
        raise SystemExit(2)
    return r.stdout


def build(outdir, san="asan", hooks=False, nosse=False, harness_srcs=(), harness_name="engine",
          harness_defs=(), harness_nosan=(), harness_libs=("liberasurecode.so.1", "libXorcode.so.1", "liberasurecode_rs_vand.so.1")):
    """Compile the four shared objects, the reference ISA-L plug-in and one harness executable."""
    os.makedirs(outdir, exist_ok=True)
    for f in os.listdir(outdir):
        p = os.path.join(outdir, f)
        if os.path.isfile(p):
            os.unlink(p)
    sanf = SAN[san]
    defs = ["-D" + GUARD] if hooks else []
    jobs = []
    objs = {}
    for lib, srcs in LIBS.items():
        objs[lib] = []
        for s in srcs:
            o = os.path.join(outdir, lib.split(".")[0] + "__" + os.path.basename(s)[:-2] + ".o")
            fl = list(PROJECT_FLAGS)
            if nosse and lib == "libXorcode.so.1":
                fl = [x for x in fl if x != "-DINTEL_SSE2"]
            jobs.append(["gcc"] + fl + sanf + defs + incs() + ["-c", os.path.join(REPO, s), "-o", o])
            objs[lib].append(o)
    # reference isa-l plug-in (verif-owned)
    isal_o = os.path.join(outdir, "refisal.o")
    jobs.append(["gcc", "-O2", "-g", "-fPIC", "-std=gnu99"] + sanf +
                ["-I" + os.path.join(VERIF, "ref"), "-c", os.path.join(VERIF, "ref", "refisal.c"), "-o", isal_o])
    hobjs = []
    for s in harness_srcs:
        o = os.path.join(outdir, "h__" + os.path.basename(s).replace(".c", ".o"))
        sf = [] if os.path.basename(s) in harness_nosan else sanf
        jobs.append(["gcc", "-O1", "-g", "-std=gnu11", "-D_GNU_SOURCE=1", "-Wall", "-Wno-unused-function",
                     "-Wno-unused-variable", "-Wno-unused-but-set-variable"] + sf + defs +
                    list(harness_defs) + incs() +
                    ["-I" + os.path.join(VERIF, "harness"), "-I" + os.path.join(VERIF, "ref"),
                     "-c", os.path.join(VERIF, s), "-o", o])
        hobjs.append(o)
    with ThreadPoolExecutor(16) as ex:
        list(ex.map(run, jobs))
    # link
    for lib in ("libXorcode.so.1", "libnullcode.so.1", "liberasurecode_rs_vand.so.1"):
        run(["gcc", "-shared", "-Wl,-soname," + lib, WRAP] + sanf + objs[lib] + ["-o", os.path.join(outdir, lib)])
    run(["gcc", "-shared", "-Wl,-soname,libisal.so.2"] + sanf + [isal_o, "-o", os.path.join(outdir, "libisal.so.2")])
    lib = "liberasurecode.so.1"
    run(["gcc", "-shared", "-Wl,-soname," + lib, WRAP] + sanf + objs[lib] +
        # as the project's own link line: only libXorcode is a dependency; the null, rs_vand and isa-l libraries are reached by dlopen
        ["-L" + outdir, "-l:libXorcode.so.1",
         "-lpthread", "-lm", "-lz", "-ldl", "-o", os.path.join(outdir, lib)])
    exe = None
    if hobjs:
        exe = os.path.join(outdir, harness_name)
        run(["gcc", "-rdynamic"] + sanf + hobjs +
            ["-L" + outdir] + ["-l:" + l for l in harness_libs] +
            ["-Wl,-rpath," + outdir, "-lpthread", "-lm", "-lz", "-ldl", "-o", exe])
    for o in sum(objs.values(), []) + hobjs + [isal_o]:
        os.unlink(o)
    return exe


def env_for(outdir, san="asan"):
    e = dict(os.environ)
    e["LD_LIBRARY_PATH"] = outdir
    e["ASAN_OPTIONS"] = "detect_odr_violation=0:detect_leaks=0:abort_on_error=1:symbolize=1:allocator_may_return_null=1:handle_segv=0:handle_sigfpe=0:handle_sigbus=0:handle_abort=0"
    e["TSAN_OPTIONS"] = "halt_on_error=0:report_signal_unsafe=0:exitcode=66"
    e.pop("LIBERASURECODE_WRITE_LEGACY_CRC", None)
    return e


if __name__ == "__main__":
    out = sys.argv[1]
    san = sys.argv[2] if len(sys.argv) > 2 else "asan"
    print(build(out, san=san, harness_srcs=sys.argv[3:]))
