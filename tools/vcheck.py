#!/usr/bin/env python3
"""vcheck — driver for every registered check.

    vcheck <Cxx> [--tier quick|thorough]     run the check, write evidence/<Cxx>.json
    vcheck replay <replay.json>              re-run exactly one recorded case
    vcheck setup                             offline setup (reference-model self tests)

Exit status: 0 property held on everything explored (known findings are listed, not failed);
             1 at least one violation not listed in KNOWN_FINDINGS.txt (a VIOLATION line is printed);
             2 the harness itself is broken (build failure, self-test failure, non-reproducible report).
"""
import hashlib, json, os, re, shutil, subprocess, sys, time

VERIF = os.path.dirname(os.path.dirname(os.path.abspath(__file__)))
sys.path.insert(0, os.path.join(VERIF, "tools"))
import build as B          # noqa: E402
import checks as REG       # noqa: E402

NCPU = min(16, os.cpu_count() or 4)
# VERIF_SCRATCH=<dir>: build output, evidence and replays of this invocation go under <dir> instead of /verif
# (used only by the seeded-change evaluation, which points VERIF_REPO at a scratch worktree and must not
# touch the committed evidence; MANIFEST commands never set it).
SCRATCH = os.environ.get("VERIF_SCRATCH")
BUILDROOT = os.path.join(SCRATCH, "build") if SCRATCH else os.path.join(VERIF, "build")
OUTROOT = SCRATCH if SCRATCH else VERIF


def log(*a):
    print(*a, flush=True)


def selftest():
    """Reference models must pass their own tests before any verdict is trusted."""
    d = os.path.join(BUILDROOT, "selftest")
    os.makedirs(d, exist_ok=True)
    exe = os.path.join(d, "selftest")
    srcs = [os.path.join(VERIF, "ref", "ref.c"), os.path.join(VERIF, "ref", "selftest_main.c")]
    stamp = os.path.join(d, "ok")
    newest = max(os.path.getmtime(p) for p in srcs + [os.path.join(VERIF, "ref", "ref.h"), os.path.join(VERIF, "ref", "xor_golden.h")])
    if os.path.exists(stamp) and os.path.getmtime(stamp) >= newest:
        return
    B.run(["gcc", "-O2", "-g", "-std=gnu11", "-Wall", "-I" + os.path.join(VERIF, "ref")] + srcs + ["-lz", "-o", exe])
    r = subprocess.run([exe], stdout=subprocess.PIPE, stderr=subprocess.STDOUT, text=True)
    if r.returncode != 0:
        sys.stderr.write("reference-model self-test FAILED:\n" + r.stdout)
        raise SystemExit(2)
    open(stamp, "w").write(r.stdout)


def parse_out(path):
    res = {"V": [], "C": {}, "K": [], "L": [], "N": [], "E": [], "done": False}
    if not os.path.exists(path):
        return res
    for line in open(path, errors="replace"):
        p = line.rstrip("\n").split("\t")
        if p[0] == "V" and len(p) >= 3:
            res["V"].append({"key": p[1], "site": p[2], "detail": p[3] if len(p) > 3 else ""})
        elif p[0] == "C" and len(p) >= 3:
            try:
                res["C"][p[1]] = float(p[2]) if "." in p[2] else int(p[2])
            except ValueError:
                pass
        elif p[0] in ("K", "L", "N", "E") and len(p) >= 2:
            res[p[0]].append(p[1])
        elif p[0] == "D":
            res["done"] = True
    return res


def load_known():
    known = []
    p = os.path.join(VERIF, "KNOWN_FINDINGS.txt")
    if not os.path.exists(p):
        return known
    for line in open(p):
        line = line.strip()
        if not line or line.startswith("#"):
            continue
        m = re.match(r"open:\s+property=(\S+)\s+(key|site)=(\S+)\s*(.*)", line)
        if m:
            known.append({"property": m.group(1), "kind": m.group(2), "value": m.group(3), "text": m.group(4), "hits": 0})
    return known


def match_known(known, prop, v):
    for k in known:
        if k["property"] != prop:
            continue
        if k["kind"] == "key" and k["value"] == v["key"]:
            k["hits"] += 1
            return k
        if k["kind"] == "site" and k["value"] == v["site"]:
            k["hits"] += 1
            return k
    return None


def build_run(run, bdir):
    return B.build(bdir, san=run.get("san", "asan"), hooks=run.get("hooks", False), nosse=run.get("nosse", False),
                   harness_srcs=run["srcs"], harness_name="engine", harness_nosan=run.get("nosan", ()),
                   **({"harness_libs": tuple(run["link"])} if run.get("link") else {}))


def engine_cmd(exe, run, tier, out, extra=()):
    cmd = [exe, "--plan", run["plan"], "--tier", tier, "--out", out]
    for k, v in run.get("opts", {}).get(tier, {}).items():
        cmd += ["--opt", "%s=%s" % (k, v)]
    return cmd + list(extra)


def run_check(prop, tier):
    t0 = time.time()
    spec = REG.CHECKS[prop]
    selftest()
    seed = int(os.environ.get("VERIF_SEED", "0") or 0)
    known = load_known()
    ev_path = os.path.join(OUTROOT, "evidence", prop + ".json")
    if os.path.exists(ev_path):
        os.unlink(ev_path)
    rdir = os.path.join(OUTROOT, "replays", prop)
    shutil.rmtree(rdir, ignore_errors=True)
    tot = {"cases": 0, "transitions": 0, "nontrivial": 0, "distinct": 0}
    samples, bounds_done, bounds_skipped, extra, notes = [], [], [], {}, []
    exhaustive = True
    unknown, known_hits = [], {}
    nviol = 0
    deadline = spec["deadline"][tier]
    runs = [r for r in spec["runs"] if tier in r.get("tiers", ("quick", "thorough"))]
    built = {}
    foreign = 0
    for ri, run in enumerate(runs):
        name = run.get("name", run["plan"])
        flav = (run.get("san", "asan"), run.get("hooks", False), run.get("nosse", False), tuple(run["srcs"]), tuple(run.get("link", ())))
        if flav not in built:
            bdir = os.path.join(BUILDROOT, "%s.%s" % (prop, tier), "f%d" % len(built))
            built[flav] = (build_run(run, bdir), bdir)
        exe, bdir = built[flav]
        out = os.path.join(bdir, "out.%s.txt" % name)
        env = B.env_for(bdir, run.get("san", "asan"))
        left = max(10.0, deadline - (time.time() - t0)) if deadline else 0
        wsum = sum(r.get("weight", 1) for r in runs[ri:])
        share = left * run.get("weight", 1) / wsum if deadline else 0
        cmd = engine_cmd(exe, run, tier, out, ["--workers", str(run.get("workers", NCPU)), "--deadline", "%.0f" % share,
                                               "--case-timeout", str(run.get("case_timeout", 30))])
        r = subprocess.run(cmd, env=env, stdout=subprocess.PIPE, stderr=subprocess.STDOUT, text=True)
        res = parse_out(out)
        if r.returncode != 0 or not res["done"] or res["E"]:
            sys.stderr.write("HARNESS ERROR in %s/%s: exit %s\n%s\n%s\n" % (prop, name, r.returncode, r.stdout[-2000:], res["E"]))
            raise SystemExit(2)
        C = res["C"]
        for k in tot:
            tot[k] += int(C.get(k, 0))
        for k, v in C.items():
            if k.startswith("x_"):
                extra[k[2:]] = extra.get(k[2:], 0) + int(v)
        ks = sorted(set(res["K"]))
        pick = ks[:: max(1, len(ks) // 3)][:3] + res["L"][:1]
        samples += [s for s in pick if s not in samples]
        cut_inside = sum(int(v) for kk, v in C.items() if kk.startswith("x_") and kk.endswith("_cut_by_deadline"))
        complete = C.get("groups_unclaimed", 0) == 0 and not C.get("deadline_hit") and not C.get("stopped_early") and C.get("groups_total", -1) >= 0 and not cut_inside
        desc = "%s: %d groups, %d cases" % (name, C.get("groups_done", 0), C.get("cases", 0))
        desc += ", %.0f s" % C.get("wall_s", 0)
        if complete:
            bounds_done.append(desc)
        else:
            exhaustive = False
            bounds_skipped.append("%s — stopped (%s) with %d of %d groups unexplored, first unexplored group index %d" % (
                desc, "deadline" if (C.get("deadline_hit") or cut_inside) else "violation cap" if C.get("stopped_early") else "incomplete",
                C.get("groups_unclaimed", 0), C.get("groups_total", 0), C.get("first_unclaimed_group", -1)))
        if C.get("distinct_saturated"):
            notes.append("distinct-key set saturated in %s: distinct count is a lower bound" % name)
        # ---- violations: de-duplicate, replay before reporting ----
        seen = {}
        for v in res["V"]:
            # a run shared between properties only reports the failure classes that belong to this property
            if run.get("only_sites") and not re.search(run["only_sites"], v["site"]):
                foreign += 1
                continue
            seen.setdefault((v["key"], v["site"]), v)
        nviol += len(seen)
        replayed = 0
        history_hv = None
        by_site_reported = {}
        for (key, site), v in seen.items():
            k = match_known(known, prop, v)
            if k is not None:
                known_hits.setdefault((k["kind"], k["value"]), (k, v))
                continue
            by_site_reported[site] = by_site_reported.get(site, 0) + 1
            if by_site_reported[site] > 3 or replayed >= 25:
                continue        # same site already reported three times: keep the output readable
            replayed += 1
            rp_out = os.path.join(bdir, "replay.txt")
            # a reported hang is re-run alone with six times the sweep's limit (enough to tell a load stall from a call that never
            # returns, without waiting five minutes per report)
            rto = str(min(300, 6 * run.get("case_timeout", 30))) if site.endswith(":hang") else "300"
            rcmd = engine_cmd(exe, run, tier, rp_out, ["--only", key, "--case-timeout", rto])
            subprocess.run(rcmd, env=env, stdout=subprocess.PIPE, stderr=subprocess.STDOUT, text=True)
            rres = parse_out(rp_out)
            same = [x for x in rres["V"] if x["key"] == key and x["site"] == site]
            os.makedirs(rdir, exist_ok=True)
            h = hashlib.sha1((key + "|" + site).encode()).hexdigest()[:16]
            rp = os.path.join(rdir, h + ".json")
            json.dump({"property": prop, "tier": tier, "run": name, "key": key, "site": site, "detail": v["detail"],
                       "reproduced_on_replay": bool(same), "replay": "./vcheck replay " + rp}, open(rp, "w"), indent=1)
            if not same and site.endswith(":hang"):
                # a wall-clock stall of the executor under machine load, not a non-terminating call: the case, re-run
                # alone with a 300 s limit, finished and satisfied every oracle (or it would be in rres["V"]).
                notes.append("case %s exceeded the per-case wall-clock limit during the sweep but completed cleanly when re-run alone (machine load); not a hang" % key)
                os.unlink(rp)
                nviol -= 1
                for x in rres["V"]:
                    # the sweep killed the case before it could report: what it reports when run alone counts
                    if x["key"] == key and not (run.get("only_sites") and not re.search(run["only_sites"], x["site"])) \
                            and match_known(known, prop, x) is None:
                        h2 = hashlib.sha1((key + "|" + x["site"]).encode()).hexdigest()[:16]
                        rp2 = os.path.join(rdir, h2 + ".json")
                        json.dump({"property": prop, "tier": tier, "run": name, "key": key, "site": x["site"], "detail": x["detail"],
                                   "reproduced_on_replay": True, "replay": "./vcheck replay " + rp2}, open(rp2, "w"), indent=1)
                        unknown.append((x, rp2))
                        nviol += 1
                continue
            if not same and run["srcs"][0] != "harness/engine_t.c":
                # The case alone, in a fresh process, satisfies the oracle: what the sweep saw depended on the cases the same
                # executor had run before it (state the library keeps between calls). Re-run the enumeration in ONE process, in
                # enumeration order, stopping at the first violation: that run is deterministic and is the replay.
                if history_hv is None:          # one single-process enumeration per run is enough
                    hp_out = os.path.join(bdir, "history.txt")
                    hcmd = engine_cmd(exe, run, tier, hp_out, ["--workers", "1", "--first", "--deadline", "900", "--case-timeout", "300"])
                    subprocess.run(hcmd, env=env, stdout=subprocess.PIPE, stderr=subprocess.STDOUT, text=True)
                    hres = parse_out(hp_out)
                    history_hv = [x for x in hres["V"] if not (run.get("only_sites") and not re.search(run["only_sites"], x["site"])) and match_known(known, prop, x) is None]
                hv = history_hv
                if hv:
                    x = hv[0]
                    os.unlink(rp)
                    h2 = hashlib.sha1(("history|" + x["key"] + "|" + x["site"]).encode()).hexdigest()[:16]
                    rp2 = os.path.join(rdir, h2 + ".json")
                    json.dump({"property": prop, "tier": tier, "run": name, "key": x["key"], "site": x["site"], "detail": x["detail"], "mode": "history",
                               "first_seen_as": {"key": key, "site": site},
                               "note": "the case passes when executed alone in a fresh process; it fails when the enumeration is executed in order in one process, i.e. the result depends on earlier calls",
                               "reproduced_on_replay": True, "replay": "./vcheck replay " + rp2}, open(rp2, "w"), indent=1)
                    x = dict(x); x["detail"] = "[depends on earlier calls in the same process; replay = single-process enumeration up to this case] " + x["detail"]
                    if rp2 not in [r for _, r in unknown]:
                        unknown.append((x, rp2))
                    else:
                        nviol -= 1
                    by_site_reported[site] = 99      # one history replay per site is enough
                    continue
            if not same:
                sys.stderr.write("HARNESS ERROR: violation did not reproduce on replay: %s %s\n" % (key, site))
                raise SystemExit(2)
            unknown.append((v, rp))
    if not os.environ.get("VERIF_KEEP_BUILD"):
        shutil.rmtree(os.path.join(BUILDROOT, "%s.%s" % (prop, tier)), ignore_errors=True)
    for (kind, value), (k, v) in known_hits.items():
        log("KNOWN-FINDING: property=%s %s=%s %s [e.g. %s: %s]" % (prop, kind, value, k["text"], v["key"], v["detail"][:200]))
    for k in known:
        if k["property"] == prop and k["hits"] == 0 and exhaustive:
            log("note: open finding no longer reproduces: %s=%s" % (k["kind"], k["value"]))
    for v, rp in unknown:
        log("VIOLATION property=%s replay=%s" % (prop, rp))
        log("  key=%s\n  %s\n  %s" % (v["key"], v["site"], v["detail"][:600]))
    cov = {
        "states": tot["cases"], "transitions": max(tot["transitions"], 1),
        "traces_validated_against_impl": tot["cases"],
        "evaluations": tot["cases"], "distinct_nontrivial": min(tot["nontrivial"], tot["distinct"]),
        "distinct_case_keys": tot["distinct"],
        "rule": spec["rule"], "samples": samples[:8] or ["(none)"],
        "exhaustive": bool(exhaustive), "bounds_completed": bounds_done, "bounds_skipped": bounds_skipped,
        "extra_counters": extra, "notes": notes,
        "violations_of_other_properties_ignored": foreign, "violations_total": nviol, "violations_known": len(known_hits), "violations_new": len(unknown),
    }
    ev = {"property_id": prop, "tier": tier, "seed": seed, "level": spec["level"], "coverage": cov,
          "assumptions": spec["assumptions"], "violations": len(unknown), "wall_s": round(time.time() - t0, 2)}
    os.makedirs(os.path.dirname(ev_path), exist_ok=True)
    json.dump(ev, open(ev_path, "w"), indent=1)
    log("%s %s: states=%d transitions=%d nontrivial=%d exhaustive=%s known=%d new=%d wall=%.1fs" % (
        prop, tier, cov["states"], cov["transitions"], cov["distinct_nontrivial"], exhaustive, len(known_hits), len(unknown), ev["wall_s"]))
    return 1 if unknown else 0


def replay(path):
    j = json.load(open(path))
    prop, tier = j["property"], j["tier"]
    spec = REG.CHECKS[prop]
    run = [r for r in spec["runs"] if r.get("name", r["plan"]) == j["run"]][0]
    bdir = os.path.join(BUILDROOT, "replay.%s" % prop)
    exe = build_run(run, bdir)
    out = os.path.join(bdir, "replay.txt")
    env = B.env_for(bdir, run.get("san", "asan"))
    if j.get("mode") == "history":
        subprocess.run(engine_cmd(exe, run, tier, out, ["--workers", "1", "--first", "--deadline", "900", "--case-timeout", "300"]), env=env)
    else:
        subprocess.run(engine_cmd(exe, run, tier, out, ["--only", j["key"], "--case-timeout", "600"]), env=env)
    res = parse_out(out)
    for v in res["V"]:
        log("VIOLATION property=%s replay=%s\n  key=%s\n  %s\n  %s" % (prop, path, v["key"], v["site"], v["detail"]))
    shutil.rmtree(bdir, ignore_errors=True)
    return 1 if res["V"] else 0


def main():
    a = sys.argv[1:]
    if not a:
        print(__doc__)
        return 2
    if a[0] == "setup":
        selftest()
        log("setup ok")
        return 0
    if a[0] == "replay":
        return replay(a[1])
    tier = os.environ.get("VERIF_TIER", "quick")
    if "--tier" in a:
        tier = a[a.index("--tier") + 1]
    return run_check(a[0], tier)


if __name__ == "__main__":
    sys.exit(main())
