#!/usr/bin/env python3
"""Regenerates MANIFEST.json from tools/checks.py (one source of truth for what is claimed)."""
import json, os, subprocess, sys
VERIF = os.path.dirname(os.path.dirname(os.path.abspath(__file__)))
sys.path.insert(0, os.path.join(VERIF, "tools"))
import checks as REG

TEXT = {
 "C01": ("Every (shape, length, content, checksum type, erasure set within tolerance, presentation) tuple of the alphabets is encoded and decoded by the real library and must return exactly the original bytes: exhaustive over erasure sets for n<=12 (thorough 16), structured family above, all 496 RS + 38 XOR shapes (+ISA-L via the reference plug-in) and the 32 shapes with m = 0, small and named shapes also with caller-supplied word sizes the back end must ignore and next to live instances of another shape of the same back end. Bounded exhaustive exploration is the right level: the property is a forall over a finite-once-bounded input space.",
         "engine S: exhaustive enumeration of inputs x erasure sets x presentations on the implementation"),
 "C02": ("All sub-multisets of a stripe, including beyond tolerance and shorter than k: every subset for RS n<=12|14, every |E|<=m for the XOR tables, with duplicates and reorderings; decode and reconstruct of every missing index must be exact or fail; crashes and out-of-bounds accesses are caught by guard pages/ASan and attributed to the case.",
         "engine S: exhaustive enumeration of fragment subsets, exact-or-error oracle"),
 "C03": ("For every erasure set within tolerance and every destination (missing or present), the reconstructed fragment is compared byte for byte with what encode produced; five out-of-range destinations must be refused.",
         "engine S: exhaustive enumeration of erasure sets x destinations"),
 "C04": ("All 133,672 generator entries of the 496 shapes against the closed form; all 2^32 GF(2^16) products and all inverses against shift-and-xor; every k-subset of rows invertible for n<=16|20; parity bytes from the public encode against the model, also for instances created with a caller-supplied word size (unset, 8, 32, 64).",
         "engine S: exhaustive enumeration of generators, field products and row subsets"),
 "C05": ("All 38 tables against a golden snapshot, transposes, minimum distance by enumeration, whitelist of shapes, and every erasure set with fewer than hd losses decoded and reconstructed for several payload sizes, in both the SSE2 and the portable build.",
         "engine S: exhaustive enumeration over tables x erasure sets, two build flavours"),
 "C06": ("All (R, X) pairs with |R|+|X| <= tolerance+1 for all XOR tables and RS n<=10|12 (structured above), both list orders (and overlapping lists for the Reed-Solomon back ends); the answer is checked for range, disjointness, rank sufficiency and by actually reconstructing from only the listed fragments.",
         "engine S: exhaustive enumeration of requests, rank + constructive oracle"),
 "C07": ("Every byte of every fragment for all shapes (RS, flat-XOR, ISA-L, null; also with caller-supplied word sizes) x checksum types x lengths x legacy-CRC switch against an independently written serializer; layout constants checked at their literal offsets; a failure that only shows after earlier calls in the same process is replayed by a single-process enumeration.",
         "engine S: exhaustive comparison with an independent serializer"),
 "C08": ("The three size queries for every length in dense ranges around every alignment boundary up to 2^20 for every shape incl. null and caller-supplied word sizes (every length 0..2^20 on eight shapes in thorough), against closed forms and against what encode really produces; unknown and just-destroyed descriptors must be refused.",
         "engine S: exhaustive enumeration of lengths x shapes"),
 "C09": ("All 640 single-bit flips x 5 sealings, byte rewrites, writer-version/magic rewrites and byte-order twins of headers produced by encode (2-bit flips in thorough), each shown to the header predicate, metadata query, decode (mutant first, last, and as surplus entry n+1 and 2n+1) and reconstruct (first, last) from a read-only page; verdicts compared with a reference predicate on the raw bytes.",
         "engine F: exhaustive enumeration of header mutations"),
 "C10": ("Stored checksums (payload, and the header seal for every checksum type) of every encoded and reconstructed fragment under five settings of the legacy switch; every payload bit flip (short payloads) and re-stamped checksum reported by the metadata query and rejected by validation - under every reader setting of the switch, for the opposite-endian twin, and by an instance created with checksum type NONE; fragments rebuilt under each other value of the switch and fragments of pre-1.2.0 writers included; the historical CRC bit-exactly on all buffers of <=2 bytes, all single-non-zero 59-byte buffers and pattern buffers.",
         "engine F: exhaustive enumeration of payload mutations and short CRC inputs"),
 "C11": ("The byte-order twin of every base fragment (intact, payload-damaged, header-damaged raw and resealed, original lengths needing all 64 bits, unsealed headers of pre-1.2.0 writers): all metadata fields, header verdicts and mismatch verdicts must equal the native fragment's; the caller's output struct is poisoned before every query.",
         "engine F: exhaustive enumeration of twins x mutations"),
 "C12": ("100 | 484 instance x foreign-stripe pairs x resealed field rewrites (index and backend version incl. every single-bit neighbour, all 256 backend ids, 16 library versions, byte order, payload bits) in-place stale edits of a just-validated buffer, opposite-endian fragments of old writers and a stored mismatch flag over an intact payload against the iff of the statement; stripe verification over all lists of <=3 fragments with one bad one at every position; every fresh fragment of every shape validates.",
         "engine F: exhaustive enumeration of instance x fragment x field-edit tuples"),
 "C13": ("Full cross products of {valid, NULL, boundary, out-of-range} per argument for every entry point against four live instances and dead descriptors (a fragment length below 80 is given with buffers that really are that short, ending at a guard page; a fragment count <= 0 also with a zero-length list and with dangling pointers), and ~215k | 1.0M configurations: backend id x k x m (every value around the accepted region plus extreme values such as INT_MAX, INT_MIN, 2^30) x hd x word size, each accepted one driven through a full cycle; ledger compared around every call.",
         "engine A: exhaustive enumeration of argument tuples and configurations"),
 "C14": ("All 518 | 3,110 abstract registry states with <=3|4 live instances over six configurations incl. two flat-XOR shapes (with and without the descriptor counter preset to wrap) x every operation (6 creates, 5 failing creates of three kinds, destroy, use incl. the availability query, 15 error exits), each transition a real API call in a forked child followed by a full teardown, with a set model, round trips of every live instance, the loaded-library invariant and a differential observation oracle; plus all operation sequences over 10 letters to depth 5|6 (and over 6 letters to depth 8) unmerged, and all 522k | 10M create/destroy/counter-preset sequences to depth 9|11 around the descriptor wrap.",
         "engine H: explicit-state search, transitions are real API calls"),
 "C15": ("Guard-page placement of every input over the C01/C03 space (n<=8|10), incl. opposite-endian twins and truly short buffers for a short fragment length, history independence of outputs in every registry state, thread independence of outputs in every schedule, and no state shared between data-plane calls of two threads (ThreadSanitizer on every schedule of drivers whose threads take read locks only).",
         "engines S+H+T: exhaustive enumeration with guard pages, state search, schedule enumeration"),
 "C16": ("Exact ledger of the library's allocations (link-time wrap) plus AddressSanitizer over every abstract registry state x every operation including 15 error exits per instance (incl. rejected calls handed stale output variables, bad headers met after scratch buffers were allocated, a caller-damaged magic before the cleanup call), over all operation sequences to depth 4|6 (8 on six letters), and over every erasure set up to one beyond tolerance of all 1,526 shapes with the ledger compared around each single decode+cleanup+reconstruct case, and around every fragments_needed request of every flat-XOR table.",
         "engine H + S: explicit-state search with an exact allocation ledger"),
 "C17": ("Every backend call of a scripted workload made to fail: 0 faults, every single position, every pair, every triple (k+m<=6|16), for every (k,m) with k+m<=10|16 of the three matrix back ends plus flat-XOR and null representatives, 11 configurations whose init the back ends refuse themselves, every flat-XOR erasure set of hd and hd+1 fragments (the decoder's own failures), and matrix-inversion failures inside the ISA-L adapters (injected, and on singular survivor sets); the failed call must return <0 with the ledger untouched and later outputs must equal the fault-free run.",
         "engine X: deviation-bounded exhaustive fault enumeration"),
 "C18": ("All interleavings of 2-3 real threads at hooked points and at every pthread rwlock/mutex operation the library performs (interposed, so the library's own lock mapping is what runs; try-locks modelled) up to 2|3 preemptions (1|2 under TSan), 7|10 life-cycle drivers plus 8 data-plane drivers (threads using pre-created instances and one shared pre-encoded stripe, read locks only, so ThreadSanitizer sees their calls as unordered), each schedule executed on the real library under AddressSanitizer and under ThreadSanitizer, results compared with the sequential run.",
         "engine T: stateless preemption-bounded schedule enumeration under a serialising scheduler"),
 "C19": ("Both adapters over all 496 shapes through a clean-room plug-in: round trip, reconstruct fidelity, no-silent-corruption over all subsets (n<=9|12), fragments_needed, every position (and pair) of an injected matrix-inversion failure on 8 shapes, and every singular survivor set found by a reference search over ALL erasure sets with |E|<=m for n<=16|20 (1,644 sets in quick).",
         "engine S with reference plug-in: exhaustive enumeration + inversion-fault enumeration"),
 "C20": ("Nine CRC32 configurations x every survivor set x every damaged subset of size <=2 (all sizes for n<=6 in thorough) x seventeen damage kinds (incl. foreign fragments with consistently stamped other payloads and opposite-endian twins), a damaged copy listed before an intact one, plus every single payload bit of every fragment as encoded and as rebuilt by reconstruct, forced checks on: result must be the original iff the valid fragments suffice, an error when they cannot, never other bytes.",
         "engine F: exhaustive enumeration of survivor x damaged subsets"),
}
NOTE = ("Trusted base: gcc, AddressSanitizer/ThreadSanitizer, the reference models in /verif/ref (self-tested by setup: zlib cross-check, golden CRC vectors, field axioms, table distance), "
        "liberasurecode_get_version(). Bounds are those listed in the evidence file's bounds_completed; nothing is claimed outside the stated alphabets.")

ENGINE = {"C13": "A", "C14": "H", "C15": "S+H+T", "C16": "H+S", "C17": "X", "C18": "T"}
for c in ("C01", "C02", "C03", "C04", "C05", "C06", "C07", "C08", "C19"): ENGINE[c] = "S"
for c in ("C09", "C10", "C11", "C12", "C20"): ENGINE[c] = "F"

def main():
    hooks = subprocess.run(["git", "-C", "/repo", "log", "--format=%h %s", "--grep=^verif hooks"], stdout=subprocess.PIPE, text=True).stdout.strip().splitlines()
    checks = []
    for pid in sorted(REG.CHECKS):
        spec = REG.CHECKS[pid]
        checks.append({
            "property_id": pid,
            "quick_cmd": "./vcheck %s --tier quick" % pid,
            "thorough_cmd": "./vcheck %s --tier thorough" % pid,
            "evidence_file": "/verif/evidence/%s.json" % pid,
            "replay_cmd_template": "./vcheck replay {path}",
            "engine": ENGINE[pid],
            "level_claimed": {"category": spec["level"], "text": TEXT[pid][0], "design_ref": "DESIGN.md section 4 (%s) and section 3.%s" % (pid, ENGINE[pid][0])},
            "level_note": NOTE,
            "technique": "model checking: " + TEXT[pid][1],
        })
    props = [json.loads(l)["id"] for l in open(os.path.join(VERIF, "properties.jsonl"))]
    na = [{"property_id": p, "reason": "check not built yet"} for p in props if p not in REG.CHECKS]
    man = {
        "version": 1,
        "setup_cmd": "./vcheck setup",
        "hooks": {"guard": "LIBERASURECODE_VERIF",
                  "enable": "every check compiles /repo's working tree itself (tools/build.py); only engine T (C18, and the thread part of C15) adds -DLIBERASURECODE_VERIF, all other engines build with the guard off",
                  "baseline_off_cmd": "cd /repo && make >/dev/null 2>&1; make test",
                  "source_commits": [h.split()[0] for h in hooks], "add_only": True},
        "engines": [
            {"name": "S", "path": "harness/engine_s.c", "serves_properties": ["C01", "C02", "C03", "C04", "C05", "C06", "C07", "C08", "C15", "C16", "C19"], "kind_free_text": "stripe explorer: exhaustive enumeration of inputs on the real library, guard-page placement"},
            {"name": "F", "path": "harness/engine_f.c", "serves_properties": ["C09", "C10", "C11", "C12", "C20"], "kind_free_text": "fragment/header mutation explorer against reference predicates"},
            {"name": "A", "path": "harness/engine_a.c", "serves_properties": ["C13"], "kind_free_text": "argument-product and configuration-box explorer"},
            {"name": "H", "path": "harness/engine_h.c", "serves_properties": ["C14", "C15", "C16"], "kind_free_text": "explicit-state search over registry states; transitions are real API calls in forked children"},
            {"name": "X", "path": "harness/engine_x.c", "serves_properties": ["C17"], "kind_free_text": "backend-fault enumerator (0,1,2[,3] faults at every position)"},
            {"name": "T", "path": "harness/engine_t.c", "serves_properties": ["C18", "C15"], "kind_free_text": "preemption-bounded schedule explorer under a serialising scheduler, ASan and TSan monitors"},
        ],
        "checks": checks,
        "notes": "Known findings: KNOWN_FINDINGS.txt (all 11 defects found so far were repaired by fix: commits in /repo; no open findings). Seeded breaking changes (197 kept, 194 caught, 3 outside every listed property) and which check catches each: seeded/RESULTS.md and DESIGN.md section 8. harness/engine_m.c is an unregistered probe (allocation failure is outside every property's quantifier, DESIGN.md section 9).",
        "not_applicable": na,
    }
    json.dump(man, open(os.path.join(VERIF, "MANIFEST.json"), "w"), indent=1)
    print("MANIFEST.json: %d checks, %d not applicable, hook commits %s" % (len(checks), len(na), man["hooks"]["source_commits"]))

if __name__ == "__main__":
    main()
