"""Registry of checks: which engine runs, in which build flavour, decide which property."""

COMMON = ["harness/vh.c", "harness/tap.c", "ref/ref.c"]
S = ["harness/engine_s.c"] + COMMON

ASSUME_S = [
    "data contents limited to the content alphabet (ramp, impulse, zero, ones); the codes are GF(2)-linear in the data and the one content-dependent primitive (GF(2^16) multiply) is checked exhaustively under C04",
    "lengths limited to the length alphabet {0,1,a-1,a,a+1,2a+3,1000} (+{16a-1,16a,4096,4097,65537,2^20} in thorough), a = k*w/8",
    "ISA-L adapters exercised through the verif-owned reference plug-in (ref/refisal.c)",
    "shapes above the exhaustive threshold use the fixed structured erasure family ST (all subsets of size <= 2, cyclic windows, end blocks, data/parity mixes), not all subsets",
    "GF(2^16) tables are kept initialised for the whole run (their life cycle is C14/C18's subject)",
]

RULE_S = ("deterministic enumeration of (backend, k, m, hd, checksum type, length, content, erasure set, presentation[, destination | request]) "
          "tuples from explicit finite alphabets, every tuple executed on the real library with inputs on read-only guard-page-bounded "
          "placements; a case is non-trivial when it reached the backend's decode / reconstruct / fragments_needed operation "
          "(counted by a tap on the instance's operation table) or, for encode-only plans, compared produced bytes with the reference; "
          "distinct = distinct case keys (hashed)")


def s_check(plan, level="model_checking", dq=150, dt=900, opts=None, rule=RULE_S, assumptions=ASSUME_S, extra_runs=()):
    runs = [{"name": plan, "plan": plan, "srcs": S, "san": "asan", "opts": opts or {}}] + list(extra_runs)
    return {"runs": runs, "level": level, "deadline": {"quick": dq, "thorough": dt}, "rule": rule, "assumptions": assumptions}


F = ["harness/engine_f.c"] + COMMON
ASSUME_F = [
    "mutations limited to the mutation alphabet of DESIGN.md 3.F (all 640 single-bit flips x 5 sealings, byte sets, version/magic rewrites, byte-order twins; 2-bit flips in thorough)",
    "base fragments taken from a covering list of configurations (RS (1,1) (4,2) (10,4) (16,16); XOR (3,3,3) (10,5,3) (12,6,4); ISA-L vand/cauchy (4,2) via the reference plug-in; null (2,1); thorough adds RS (2,1) (3,3) (1,31) (31,1) (20,12) (5,3), XOR (5,5,3) (6,6,4) (20,6,4) (15,6,3), ISA-L vand (10,4), cauchy (3,3))",
    "headers that are accepted while claiming a different payload/original length (forged but sealed) are shown to the header predicate only; no listed property defines the other consumers' behaviour on them",
    "liberasurecode_get_version() is trusted as the running library's version",
]
RULE_F = ("deterministic enumeration of (base fragment, mutation) pairs; each mutant is placed on a read-only page ending at a guard page and shown to the real "
          "consumers (header predicate, metadata query, validation, decode, reconstruct, stripe verification); verdicts are compared with reference predicates "
          "evaluated on the raw bytes; non-trivial = the mutant differs from its base (or the case damages / relabels at least one fragment)")


def f_check(plan, dq=150, dt=900):
    return {"runs": [{"name": plan, "plan": plan, "srcs": F, "san": "asan"}], "level": "model_checking",
            "deadline": {"quick": dq, "thorough": dt}, "rule": RULE_F, "assumptions": ASSUME_F}


A = ["harness/engine_a.c"] + COMMON
H = ["harness/engine_h.c"] + COMMON
# engines whose subject is the instance life cycle link only what the project itself links, so that the dlopen-ed back-end
# libraries (null, rs_vand, isa-l) really are unmapped when their last reference is dropped
LIFE_LINK = ["liberasurecode.so.1", "libXorcode.so.1"]
T_SRCS = ["harness/engine_t.c", "harness/vsched.c", "harness/vh.c", "ref/ref.c"]
RULE_H = ("explicit-state search over abstract registry states (sequence of live configurations in registry order, <= 4 slots, counter preset or not): every state is "
          "built by its canonical history in a child forked from a pristine process and every operation of the alphabet (create x6, failed create x5, destroy slot, use slot, "
          "15 error exits per slot, counter preset) is applied to it as real API calls; invariants of the set model are checked after each call, self-loops must leave the "
          "concrete observation (registry walk, ledger, table pointer) identical, and a state reached by an operation must look exactly like the same state built canonically; "
          "plus an unmerged enumeration of all operation sequences over a 10-letter alphabet up to the stated depth (thorough: two further depths over the six registry-changing letters); states = transitions explored (one per case), "
          "non-trivial = state-changing transition or an operation on a non-empty registry")
ASSUME_H = ["<= 4 live instances; configurations rs_vand (2,1) (3,2), flat_xor_hd (3,3,3) (5,5,3), isa_l_rs_vand (2,1) via the reference plug-in, null (2,1); failing creates: unsupported flat-XOR shape, missing Jerasure library, k+m > 32, and init failures inside the null and isa-l back ends (w = 4)",
            "descriptors are opaque tokens: states are merged up to descriptor renaming (the counter preset is part of the state); the unmerged sequence enumeration cross-checks this",
            "allocation failure is not injected"]
C14_SITES = r"descriptor-not-unique|registry-differs-from-model|dead-descriptor-accepted|live-instance-unusable|history-dependent-output|bad-create-succeeded|create-failed|destroy-failed|zero-descriptor|failed-create-left-something|same-state-different-observation|self-loop-changed-state|tables-not-released|registry-not-empty|crash|signal-|asan-|hang"
C16_SITES = r":leak$|free-of-unowned-block|tables-not-released|registry-not-empty|failed-create-left-something|same-state-different-observation|crash|signal-|asan-|hang"
CHECKS = {
    "C01": s_check("c01", opts={"quick": {"isa_n": 12}}),
    "C02": s_check("c02"),
    "C03": s_check("c03", opts={"quick": {"isa_n": 10}}),
    "C04": s_check("c04"),
    "C05": s_check("c05", extra_runs=[{"name": "c05-nosse", "plan": "c05", "srcs": S, "san": "asan", "nosse": True}]),
    "C06": s_check("c06"),
    "C07": s_check("c07"),
    "C08": s_check("c08"),
    "C09": f_check("c09"),
    "C10": f_check("c10"),
    "C11": f_check("c11"),
    "C12": f_check("c12"),
    "C20": f_check("c20"),
    "C13": {"runs": [{"name": "args", "plan": "args", "srcs": A, "san": "asan"}], "level": "model_checking",
            "deadline": {"quick": 150, "thorough": 900},
            "rule": ("full cross product of per-argument alphabets {valid, NULL, boundary, out-of-range} for every public entry point against live rs_vand / flat_xor_hd / "
                     "isa_l / null instances and dead descriptors, plus the configuration box backend id x k x m (every value in -1..33 | -2..40 and 5 | 9 extreme values such as INT_MAX, INT_MIN, 2^16, 2^30) x hd x w (5 | 16 values); every tuple is one real call "
                     "(accepted configurations run a full create-query-encode-decode-reconstruct-destroy cycle); non-trivial = at least one argument is invalid, or the "
                     "configuration was accepted and completed the cycle; ledger compared before/after every call"),
            "assumptions": ["NULL *elements* inside a fragment array and out-of-range indexes inside fragments_needed's lists are not in the alphabet (the statement names neither)",
                            "a fragment_len >= 80 that is smaller than the real fragments is not in the alphabet (recorded as an out-of-scope observation in DESIGN.md 9)",
                            "allocation failure is not injected", "Jerasure, SHSS and libphazr are not installed: their ids are exercised only up to the 'backend not available' refusal"]},
    "C14": {"runs": [{"name": "states", "plan": "states", "srcs": H, "san": "asan", "link": LIFE_LINK, "weight": 3, "opts": {"quick": {"slots": 3, "pin_plugins": 0}, "thorough": {"slots": 4, "pin_plugins": 0}}, "only_sites": C14_SITES},
                     {"name": "seq", "plan": "seq", "srcs": H, "san": "asan", "link": LIFE_LINK, "weight": 2, "opts": {"quick": {"depth": 5, "pin_plugins": 0}, "thorough": {"depth": 6, "pin_plugins": 0}}, "only_sites": C14_SITES},
                     {"name": "seqR", "plan": "seq", "srcs": H, "san": "asan", "link": LIFE_LINK, "weight": 3, "tiers": ("thorough",), "opts": {"thorough": {"depth": 8, "from_depth": 7, "reduced": 1, "pin_plugins": 0}}, "only_sites": C14_SITES},
                     {"name": "wrap", "plan": "wrap", "srcs": H, "san": "asan", "link": LIFE_LINK, "opts": {"quick": {"depth": 9, "pin_plugins": 0}, "thorough": {"depth": 11, "pin_plugins": 0}}, "only_sites": C14_SITES}],
            "level": "model_checking", "deadline": {"quick": 150, "thorough": 1500},
            "rule": RULE_H + "; plus (wrap) every sequence over {create flat_xor_hd, create null, destroy slot 0..3, counter := INT_MAX-1, counter := INT_MAX} up to the stated depth, unmerged, "
                    "so that the wrapped descriptor counter meets every arrangement of <= 4 live descriptors", "assumptions": ASSUME_H},
    "C16": {"runs": [{"name": "states", "plan": "states", "srcs": H, "san": "asan", "link": LIFE_LINK, "opts": {"quick": {"slots": 3, "pin_plugins": 0}, "thorough": {"slots": 4, "pin_plugins": 0}}, "only_sites": C16_SITES},
                     {"name": "seq", "plan": "seq", "srcs": H, "san": "asan", "link": LIFE_LINK, "opts": {"quick": {"depth": 4, "pin_plugins": 0}, "thorough": {"depth": 6, "pin_plugins": 0}}, "only_sites": C16_SITES},
                     {"name": "seqR", "plan": "seq", "srcs": H, "san": "asan", "link": LIFE_LINK, "tiers": ("thorough",), "opts": {"thorough": {"depth": 8, "from_depth": 7, "reduced": 1, "pin_plugins": 0}}, "only_sites": C16_SITES},
                     {"name": "c16s", "plan": "c16s", "srcs": S, "san": "asan"}],
            "level": "model_checking", "deadline": {"quick": 150, "thorough": 1500},
            "rule": RULE_H + "; plus a sweep over all 496 RS + 38 XOR + 2x496 ISA-L shapes: encode, decode (4 erasure sets, unaligned inputs), reconstruct every index, the cleanup calls, destroy - the ledger of library allocations must be back at its baseline",
            "assumptions": ASSUME_H + ["leak = the exact ledger of the library's own allocations (link-time --wrap) differs from its value before the operation; use-after-free / overflow = AddressSanitizer report"]},
    "C17": {"runs": [{"name": "faults", "plan": "faults", "srcs": ["harness/engine_x.c"] + COMMON, "san": "asan", "case_timeout": 10}],
            "level": "fault_enumeration", "deadline": {"quick": 150, "thorough": 900},
            "rule": ("a tap on the backend operation table makes the n-th backend call (init, encode, decode, reconstruct, fragments_needed) of a scripted workload "
                     "(create, encode, decode with unaligned inputs, reconstruct data, fragments_needed, encode, decode two missing, reconstruct parity, destroy) report failure: "
                     "all runs with 0 faults, every single position, every pair of positions (thorough: every triple); each faulted public call must return < 0 with the ledger "
                     "exactly as before the call and no cleanup call made, is then repeated, and every later output must equal the fault-free run's; "
                     "non-trivial = at least one injected fault fired"),
            "assumptions": ["workload of about a dozen backend calls per configuration: every (k,m) with k+m <= 10 | 16 for rs_vand, isa_l_rs_vand, isa_l_rs_cauchy; flat_xor_hd (3,3,3) (5,5,3) (6,6,4); null (2,1); rs_vand (10,4) (4,10); isa_l_rs_vand (3,12) (+3 flat_xor_hd shapes in thorough); triples of faults for k+m <= 6 | 16",
                            "a backend 'failure' is a negative / NULL return of the operation-table entry (injected by the tap), plus the failures the back ends report themselves: init for 11 refused configurations (unsupported flat-XOR shapes, null / isa-l word sizes) and flat-XOR decode / reconstruct for every erasure set of hd and hd+1 fragments of 5 | 7 shapes; failures inside the plug-in's primitives (matrix inversion) are C19's subject",
                            "allocation failure is not injected"]},
    "C18": {"runs": [
                     {"name": "tsan", "plan": "tsan", "srcs": T_SRCS, "san": "tsan", "hooks": True, "nosan": ("vsched.c",), "weight": 2, "opts": {"quick": {"bound": 1, "drivers": 7, "bound3": 1}, "thorough": {"bound": 2, "drvmask": 0x403ff, "bound3": 1}}},
                     # data plane only, on instances created before the threads start: the threads take read locks only, so nothing orders them for TSan
                     # one preemption in both tiers: TSan reports a data-plane race in every schedule anyway, and two preemptions over the
                     # ~330 scheduling points of these workloads cost 10^5 executions per driver
                     {"name": "tsan-data", "plan": "tsan", "srcs": T_SRCS, "san": "tsan", "hooks": True, "nosan": ("vsched.c",), "opts": {"quick": {"bound": 1, "drvmask": 0x3fc00}, "thorough": {"bound": 1, "drvmask": 0x3fc00}}},
                     {"name": "asan-data", "plan": "asan", "srcs": T_SRCS, "san": "asan", "hooks": True, "nosan": ("vsched.c",), "opts": {"quick": {"bound": 1, "drvmask": 0x3fc00}, "thorough": {"bound": 1, "drvmask": 0x3fc00}}},
                     # bound 3 on the life-cycle drivers is the most expensive run: last, with the largest share of whatever time is left
                     {"name": "asan", "plan": "asan", "srcs": T_SRCS, "san": "asan", "hooks": True, "nosan": ("vsched.c",), "weight": 4, "opts": {"quick": {"bound": 2, "drivers": 7, "bound3": 1}, "thorough": {"bound": 3, "drvmask": 0x403ff, "bound3": 2}}}],
            "level": "model_checking", "deadline": {"quick": 200, "thorough": 3000},
            "rule": ("stateless depth-first enumeration of all interleavings of 2-3 real threads under a serialising scheduler: scheduling points are the guarded yield hooks in the "
                     "registry and GF-table code and every rwlock/mutex operation (modelled, so a thread asking for a held lock is disabled); iterative preemption bounding; each "
                     "schedule is one execution of the real library in a forked child, once under AddressSanitizer and once under ThreadSanitizer (the scheduler's futex hand-offs are "
                     "invisible to TSan, so conflicting accesses not ordered by a real lock are reported in every schedule); per-thread results are compared with the sequential "
                     "execution; states = executions (schedules), transitions = scheduling points taken, non-trivial = at least one switch away from a runnable thread"),
            "assumptions": ["2-3 threads (4 in one thorough driver); drivers W1 (two threads create/use/destroy their own rs_vand instance), W2/W2b (shared descriptor used while another thread creates/destroys its own instance), "
                            "W4 (last instance destroyed while another thread creates), W5 (concurrent creates kept alive; descriptors compared), W6/W7 (two flat_xor_hd / two isa_l instances), W3/W2+/W1x3 with three threads, W4x with four (thorough, one preemption); "
                            "U* (two threads running the whole data plane - encode, 9 decode variants, reconstruct, fragments_needed, metadata incl. opposite-endian headers, validation - on one shared or two separate "
                            "pre-created rs_vand (3,3) / flat_xor_hd (6,6,4) / isa_l (3,3) instances; only read locks are taken, so TSan sees the calls as unordered)",
                            "interleavings are explored at hooked points only; accesses between hooks are covered by the ThreadSanitizer monitor on the same schedules, not by further interleaving",
                            "sequentially consistent execution (one thread runs at a time); weak-memory effects only as far as TSan's happens-before model flags them"]},
    "C15": {"runs": [{"name": "c15", "plan": "c15", "srcs": S, "san": "asan", "weight": 10, "opts": {"quick": {"isa_n": 12}}},
                     {"name": "states", "plan": "states", "srcs": H, "san": "asan", "link": LIFE_LINK, "opts": {"quick": {"slots": 3, "pin_plugins": 0}, "thorough": {"slots": 4, "pin_plugins": 0}}, "only_sites": r"history-dependent-output"},
                     {"name": "threads", "plan": "asan", "srcs": T_SRCS, "san": "asan", "hooks": True, "nosan": ("vsched.c",),
                      "opts": {"quick": {"bound": 1, "drivers": 2}, "thorough": {"bound": 2, "drivers": 5}}, "only_sites": r"result-differs-from-sequential"},
                     # thread independence of the data plane: state shared between calls (a static scratch buffer, a cached flag) is a conflicting access TSan reports
                     {"name": "threads-data", "plan": "tsan", "srcs": T_SRCS, "san": "tsan", "hooks": True, "nosan": ("vsched.c",),
                      "opts": {"quick": {"bound": 1, "drvmask": 0x3fc00}, "thorough": {"bound": 1, "drvmask": 0x3fc00}}, "only_sites": r"result-differs-from-sequential|tsan-data-race"}],
            "level": "model_checking", "deadline": {"quick": 150, "thorough": 1200},
            "rule": ("(1) data plane: every shape x three lengths x all erasure sets within tolerance (exhaustive for n <= 8 | 10) x decode + reconstruct of every index, with the caller's data, "
                     "fragments, pointer array and index lists on read-only pages that end at (or start after) a PROT_NONE page, in three placements (end-abutting, 16-aligned start, "
                     "odd alignment): any write to an input or read outside it faults and is attributed to the case; encode repeated after all that activity must give identical bytes; "
                     "(2) histories: in every abstract registry state (<= 3 | 4 live instances) every live instance's outputs are compared with those of a fresh process; "
                     "(3) threads: in every schedule of drivers W1/W2 up to the preemption bound each thread's outputs are compared with the sequential execution, and in every schedule of the "
                     "data-plane drivers U* (two threads using pre-created instances; read locks only) ThreadSanitizer must report no conflicting access and the outputs must equal the sequential ones; "
                     "non-trivial = the case reached a backend operation / operated on a non-empty registry / switched threads"),
            "assumptions": ASSUME_S + ["sanitizer reports under the thread scheduler are C18's findings and are not counted here; only output differences are"]},
    "C19": {"runs": [
        {"name": "c19inj", "plan": "c19inj", "srcs": S, "san": "asan"},
        {"name": "c19sing", "plan": "c19sing", "srcs": S, "san": "asan"},
        {"name": "c19rt", "plan": "c19rt", "srcs": S, "san": "asan", "weight": 6, "opts": {"quick": {"ex_n": 9, "st_lens": 2}}},
        {"name": "c19rc", "plan": "c19rc", "srcs": S, "san": "asan", "weight": 4, "opts": {"quick": {"ex_n": 7, "st_lens": 1, "ex_lens": 2, "max_n": 14}}},
        {"name": "c19sc", "plan": "c19sc", "srcs": S, "san": "asan", "opts": {"quick": {"all_n": 9}}},
        {"name": "c19fn", "plan": "c19fn", "srcs": S, "san": "asan", "opts": {"quick": {"ex_n": 7, "st_t": 4}}},
    ], "level": "model_checking", "deadline": {"quick": 240, "thorough": 1800}, "rule": RULE_S, "assumptions": ASSUME_S},
}
