#!/usr/bin/env python3
"""One-line description of every seeded change (what it is, what it needs to manifest); merged into seeded/<id>/meta.json."""
import json, os
VERIF = os.path.dirname(os.path.dirname(os.path.abspath(__file__)))
S = {
 "C01-1": "realign-by-copy copies fragment_size-80 bytes instead of fragment_size: tail of an unaligned fragment lost; needs a 16-byte-unaligned input buffer",
 "C01-2": "rs_vand decode 'single lost data fragment' XOR fast path run for any pattern with exactly one data loss, also when parity 0 is lost too; needs data+parity0 missing together",
 "C02-1": "xor_reconstruct_one ignores the decoder's failure code; needs a flat-XOR reconstruct beyond tolerance",
 "C03-1": "same realign copy truncation as C01-1 in prepare_fragments_for_decode; needs unaligned inputs",
 "C03-2": "get_first_k_available returns a function-static array instead of a heap block; needs two threads decoding at once",
 "C04-1": "rs_vand init keeps a caller-supplied w instead of forcing 16, so the front end aligns with w/8; needs ec_args.w = 8/32 and an odd payload",
 "C04-2": "GF table mutex released before the 64K-entry fill; needs a second creator between publication and fill",
 "C05-1": "XOR tail loop works a machine word at a time and drops the last 1..7 bytes; needs blocksize not a multiple of 8/16",
 "C05-2": "shape whitelist merged for hd 3 and 4: (k=16..20, m=6, hd=3) accepted and read past the tables; needs an unsupported shape",
 "C05-3": "one bit lost in the data-side table of (10,5,3); needs that shape, one erasure pair and one reconstruct target",
 "C06-1": "fragments_needed ORs only the parities asked for, not the missing ones; needs an excluded parity next to a requested data fragment",
 "C06-2": "fragments_needed uses a function-static index list; needs two threads in the slow path",
 "C07-1": "encode slices the input by i*payload_size with unsigned arithmetic; needs a short input (len < (k-1)*payload) so the difference wraps",
 "C07-2": "set_checksum returns early for an empty payload leaving type/flag unset; needs a zero-length encode with CRC32",
 "C08-1": "aligned size computed as len + (a - len % a): one unit too many for exact multiples and for 0; needs len % (k*w/8) == 0",
 "C08-2": "zero-length input padded up to one alignment unit in encode only; needs len == 0 (query and encode disagree)",
 "C09-1": "header predicate reads the writer version un-swapped on the opposite-endian branch; needs a byte-swapped header of a pre-1.2.0 / >= 1.2.0 writer",
 "C09-2": "historical CRC variant xors the byte into the register before the sign-extending shift; needs a buffer whose legacy CRC differs (high bit bytes)",
 "C10-1": "legacy-CRC switch: empty string now means 'on'; needs LIBERASURECODE_WRITE_LEGACY_CRC=''",
 "C10-2": "payload CRC compared with the raw (un-swapped) stored checksum; needs an opposite-endian CRC32 fragment",
 "C11-1": "stored payload checksum captured before the byte swap; needs an opposite-endian CRC32 fragment",
 "C11-2": "byte order remembered in a file-static flag set by the header predicate; needs two threads (or an interleaved header check of another fragment)",
 "C12-1": "index compared as signed int; needs a re-sealed index >= 2^31",
 "C12-2": "is_invalid_fragment checks the version after the metadata query and reads it from the raw header; needs a newer-version fragment whose header fails / byte-swapped",
 "C13-1": "encode no longer clears *encoded_data before its argument checks; needs a rejected encode with fragment_len == NULL (error path frees caller garbage)",
 "C13-2": "flat-XOR whitelist merged for hd 3/4 (as C05-2); needs create with (16..20, 6, 3)",
 "C14-1": "descriptor allocator looks the registry up only at the moment of the wrap; needs the counter to wrap below a live descriptor and one more create",
 "C14-2": "GF table use count incremented only by the first initialiser; needs two rs_vand instances and destruction of one",
 "C15-1": "encode copies payload_size bytes for every data fragment but the last: reads past the caller's buffer; needs a short input (len < (k-1)*payload)",
 "C15-2": "decode_three_data keeps its P xor Q scratch buffer in a function-static; needs flat-XOR hd=4, a 3-data pattern with no singleton parity, two threads",
 "C16-1": "encode clears its output pointers only after the argument checks; needs a rejected encode whose output variables hold stale pointers (double free)",
 "C16-2": "decode_three_data never frees the P xor Q buffer; needs flat-XOR hd=4 and a 3-data pattern with no singleton parity (leak)",
 "C17-1": "reconstruct's error path skips freeing the realigned copies; needs a failing backend reconstruct with unaligned inputs",
 "C17-2": "encode's error path rewinds only parity pointers i < k; needs a failing backend encode on a shape with m > k",
 "C18-1": "GF table mutex covers only the use count, not the fill; needs a second creator during the fill",
 "C18-2": "descriptor picked under the read lock, inserted later under the write lock; needs two concurrent creates (duplicate descriptor)",
 "C19-1": "ISA-L adapter returns +EINSUFFFRAGS (positive) when inversion fails; needs a singular survivor matrix or a failing gf_invert_matrix",
 "C19-2": "ISA-L adapter counts missing fragments from the bitmap, whose bit 31 is sign-extended by convert_list_to_bitmap; needs k+m == 32 with fragment 31 and a data fragment missing (heap overflow in decode)",
 "C20-1": "invalid fragments removed by swapping in the last entry without re-checking it; needs two invalid fragments, one of them last",
 "C20-2": "index compared as signed int in verify_fragment_metadata; needs a re-sealed index >= 2^31 under forced checks",
 "own-D9-unfix": "reverse of the thread-safety repair a469e78 (registry walked without the lock, GF tables set up unsynchronised); needs 1-2 preemptions",
}
for sid, text in S.items():
    p = os.path.join(VERIF, "seeded", sid, "meta.json")
    if os.path.exists(p):
        m = json.load(open(p)); m["summary"] = text; json.dump(m, open(p, "w"), indent=1)
