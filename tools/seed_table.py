#!/usr/bin/env python3
"""seed_table.py — writes seeded/RESULTS.md from seeded/*/meta.json (one row per kept seeded change)."""
import glob, json, os, re

VERIF = os.path.dirname(os.path.dirname(os.path.abspath(__file__)))


def first_line_of_patch(d):
    files = []
    for l in open(os.path.join(d, "patch.diff"), errors="replace"):
        m = re.match(r"\+\+\+ b/(\S+)", l)
        if m:
            files.append(m.group(1))
    return ", ".join(sorted(set(os.path.basename(f) for f in files)))


def main():
    rows = []
    for mp in sorted(glob.glob(os.path.join(VERIF, "seeded", "*", "meta.json"))):
        d = os.path.dirname(mp)
        m = json.load(open(mp))
        if not os.path.exists(os.path.join(d, "patch.diff")):
            continue
        sid = m.get("id", os.path.basename(d))
        if m.get("kept") is False:
            rows.append((sid, m.get("property", "?"), first_line_of_patch(d), "NOT KEPT: " + m.get("confirmed", ""), "", ""))
            continue
        res = m.get("results_by_check", {})
        det = sorted(c for c, v in res.items() if v["verdict"] == "DETECTED") or m.get("detected_by", [])
        mis = sorted(c for c, v in res.items() if v["verdict"] == "missed")
        err = sorted(c for c, v in res.items() if v["verdict"] == "HARNESS-ERROR")
        own = m.get("property", "?")
        how = ""
        if own in res and res[own]["verdict"] == "DETECTED":
            how = res[own].get("site", "").replace("site:", "")[:90]
        elif det:
            c = det[0]
            how = "(%s) %s" % (c, res.get(c, {}).get("site", "").replace("site:", "")[:80])
        rows.append((sid, own, first_line_of_patch(d), (m.get("summary", m.get("needs", "")) + ((" [" + m["scope"] + "]") if m.get("scope") else ""))[:420], " ".join(det) + ((" ERR:" + " ".join(err)) if err else ""), " ".join(mis), how))
    out = ["# Seeded changes and which checks catch them", "",
           "Each change was written by a sub-agent that saw only the property text and a scratch worktree (`own-*` entries are the framework author's).",
           "Confirmed by `tools/seed_confirm.sh` (demo passes on the clean tree; with the patch the tree builds, `make test` exits 0, the demo fails),",
           "then evaluated by `tools/seed_run.py` (quick tier of the listed checks against a scratch worktree with the patch applied).",
           "`caught by` lists every check that exited 1 with a VIOLATION; `not caught by` lists the checks that were run and stayed silent", "",
           "| seed | property | files | what it needs | caught by | not caught by | first report of the catching check |", "|---|---|---|---|---|---|---|"]
    n_kept = n_det = n_own = 0
    for r in rows:
        if len(r) == 6:
            out.append("| %s | %s | %s | %s | | | |" % r[:4])
            continue
        out.append("| %s | %s | %s | %s | %s | %s | %s |" % tuple(x.replace("|", "/").replace("\n", " ") for x in r))
        n_kept += 1
        if r[4].strip() and not r[4].startswith(" ERR"):
            n_det += 1
        if r[1] in r[4].split():
            n_own += 1
    n_scope = sum(1 for mp in glob.glob(os.path.join(VERIF, "seeded", "*", "meta.json")) if json.load(open(mp)).get("scope"))
    out += ["", "%d kept changes; %d caught by at least one check; %d caught by the check of the property they were written against; %d are outside every listed property (2 need an allocation failure at one particular request, 1 is permitted by C14's wording) and are not caught, by design." % (n_kept, n_det, n_own, n_scope), ""]
    open(os.path.join(VERIF, "seeded", "RESULTS.md"), "w").write("\n".join(out))
    print("\n".join(out[-3:]))


if __name__ == "__main__":
    main()
