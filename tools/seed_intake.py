#!/usr/bin/env python3
"""seed_intake.py <Cxx> <1|2> [check ...]
Confirms a sub-agent's seeded change in its scratch worktree (/tmp/wt/<Cxx>), runs the named quick checks against it
(applied to /repo's working tree and always reverted), and files it under /verif/seeded/<Cxx>-<n>/ with meta.json."""
import json, os, shutil, subprocess, sys

VERIF = os.path.dirname(os.path.dirname(os.path.abspath(__file__)))
NEIGH = {"C01": "C01 C02 C03 C15", "C02": "C02 C01 C05", "C03": "C03 C01 C10", "C04": "C04 C01 C07", "C05": "C05 C01 C02",
         "C06": "C06 C18", "C07": "C07 C08 C01", "C08": "C08 C07", "C09": "C09 C11 C12", "C10": "C10 C07 C11",
         "C11": "C11 C09 C12 C18", "C12": "C12 C20 C09", "C13": "C13 C05", "C14": "C14 C16 C18", "C15": "C15 C01 C18",
         "C16": "C16 C14 C17", "C17": "C17 C16", "C18": "C18 C14", "C19": "C19", "C20": "C20 C12"}


def main():
    prop, n = sys.argv[1], sys.argv[2]
    checks = sys.argv[3:] or NEIGH[prop].split()
    sfx = "" if n == "1" else n
    out = "/tmp/wt/out_%s" % prop
    wt = "/tmp/wt/%s" % prop
    patch = os.path.join(out, "patch%s.diff" % sfx)
    demo = os.path.join(out, "run_demo%s.sh" % sfx)
    if not os.path.exists(patch):
        print("no", patch); return 1
    r = subprocess.run([os.path.join(VERIF, "tools", "seed_confirm.sh"), wt, patch, demo], stdout=subprocess.PIPE, stderr=subprocess.STDOUT, text=True)
    conf = r.stdout.strip().splitlines()[-2:] if r.stdout.strip() else ["?"]
    confirmed = bool(conf) and conf[-1] == "CONFIRMED"
    print(prop, n, " | ".join(conf))
    if not confirmed:
        return 1
    r = subprocess.run([os.path.join(VERIF, "tools", "seed_eval.sh"), patch] + checks, stdout=subprocess.PIPE, stderr=subprocess.STDOUT, text=True)
    lines = [l for l in r.stdout.splitlines() if l[:1] == "C"]
    for l in lines:
        print("   ", l[:260])
    det = [l.split()[0] for l in lines if " DETECTED " in l]
    d = os.path.join(VERIF, "seeded", "%s-%s" % (prop, n))
    os.makedirs(d, exist_ok=True)
    shutil.copy(patch, os.path.join(d, "patch.diff"))
    for f in ("demo%s.c" % sfx, "run_demo%s.sh" % sfx, "notes.md", "refisal_standin.c"):
        p = os.path.join(out, f)
        if os.path.exists(p):
            shutil.copy(p, os.path.join(d, f))
    meta = {"id": "%s-%s" % (prop, n), "property": prop, "origin": "written by an independent sub-agent given only the property text and a scratch worktree",
            "needs": "see notes.md (section for change %s)" % n,
            "confirmed": conf[0] if conf else "",
            "ran": ["tools/seed_confirm.sh %s %s %s  -> %s" % (wt, patch, demo, conf[-1] if conf else "?"),
                    "tools/seed_eval.sh %s %s" % (patch, " ".join(checks))],
            "results": lines, "detected_by": det, "missed_by": [l.split()[0] for l in lines if " missed " in l]}
    json.dump(meta, open(os.path.join(d, "meta.json"), "w"), indent=1)
    return 0


if __name__ == "__main__":
    sys.exit(main())
