#!/usr/bin/env python3
"""seed_run.py <seed-id> [--checks C01,C02,...] [--all] [--no-confirm] [--tier quick]

Evaluates one seeded change (a patch produced by an independent sub-agent, kept under /verif/seeded/<seed-id>/ or still
in /verif/seeded/inbox/<Cxx>/) WITHOUT touching /repo: a scratch worktree of /repo's HEAD is created under /tmp/seedwt/,
 1. confirmation: the demonstration passes on the clean tree; with the patch the tree builds, `make test` exits 0 and the
    demonstration fails (tools/seed_confirm.sh);
 2. detection: the patch is applied to the scratch worktree and the named checks run with VERIF_REPO=<worktree> and
    VERIF_SCRATCH=<scratch> (so the committed evidence is not rewritten), one after the other;
 3. seeded/<seed-id>/meta.json is (re)written; the worktree and all build output are removed.
Several seed_run.py processes may run side by side (each has its own worktree and scratch directory).

seed-id is <Cxx>-<n>; inbox files are patch.diff/demo.c/run_demo.sh for n = 1 and patch<n>.diff/demo<n>.c/run_demo<n>.sh above.
"""
import json, os, re, shutil, subprocess, sys, time

VERIF = os.path.dirname(os.path.dirname(os.path.abspath(__file__)))
NEIGH = {"C01": "C01 C02 C03", "C02": "C02 C01", "C03": "C03 C01 C18", "C04": "C04 C07 C18", "C05": "C05 C01",
         "C06": "C06 C18", "C07": "C07 C08", "C08": "C08 C07", "C09": "C09 C11 C12", "C10": "C10 C11",
         "C11": "C11 C09 C18", "C12": "C12 C20 C09", "C13": "C13", "C14": "C14 C18", "C15": "C15 C01 C18",
         "C16": "C16 C17", "C17": "C17 C16", "C18": "C18", "C19": "C19", "C20": "C20 C12"}
ALL = ["C%02d" % i for i in range(1, 21)]


def sh(cmd, **kw):
    return subprocess.run(cmd, stdout=subprocess.PIPE, stderr=subprocess.STDOUT, text=True, **kw)


def main():
    a = sys.argv[1:]
    sid = a[0]
    prop, n = sid.split("-")[0], sid.split("-", 1)[1]
    checks = NEIGH.get(prop, prop).split()
    if "--checks" in a:
        checks = a[a.index("--checks") + 1].split(",")
    if "--all" in a:
        checks = ALL
    tier = a[a.index("--tier") + 1] if "--tier" in a else "quick"
    d = os.path.join(VERIF, "seeded", sid)
    if not os.path.exists(os.path.join(d, "patch.diff")):
        src = os.path.join(VERIF, "seeded", "inbox", prop)
        sfx = "" if n == "1" else n
        if not os.path.exists(os.path.join(src, "patch%s.diff" % sfx)):
            print("no patch for", sid)
            return 2
        os.makedirs(d, exist_ok=True)
        for f, t in (("patch%s.diff" % sfx, "patch.diff"), ("demo%s.c" % sfx, "demo.c"), ("run_demo%s.sh" % sfx, "run_demo.sh"),
                     ("notes.md", "notes.md"), ("refisal_standin.c", "refisal_standin.c")):
            if os.path.exists(os.path.join(src, f)):
                shutil.copy(os.path.join(src, f), os.path.join(d, t))
        # the sub-agent's run_demo<n>.sh names demo<n>.c and its own output directory; make it self-contained
        rp = os.path.join(d, "run_demo.sh")
        if os.path.exists(rp):
            s = open(rp).read()
            s = s.replace("demo%s.c" % sfx, "demo.c") if sfx else s
            s = re.sub(r"/tmp/wt/out_%s" % prop, '"$(dirname "$(readlink -f "$0")")"', s)
            open(rp, "w").write(s)
    patch = os.path.join(d, "patch.diff")
    demo = os.path.join(d, "run_demo.sh")
    scratch = "/tmp/seedscratch/%s" % sid
    shutil.rmtree(scratch, ignore_errors=True)
    wt = "/tmp/wt/%s" % prop          # the sub-agent's own (configured and built) scratch worktree, if it is still there
    reuse = os.path.exists(os.path.join(wt, "config.status"))
    if reuse:
        sh(["git", "checkout", "--", "."], cwd=wt)
    else:
        wt = "/tmp/seedwt/%s" % sid
        os.makedirs("/tmp/seedwt", exist_ok=True)
        sh(["git", "-C", "/repo", "worktree", "remove", "--force", wt])
        r = sh(["git", "-C", "/repo", "worktree", "add", "--detach", wt, "HEAD"])
        if r.returncode:
            print(r.stdout)
            return 2
        for f in ("INSTALL", "depcomp", "missing"):
            if os.path.exists("/repo/" + f) and not os.path.exists(os.path.join(wt, f)):
                shutil.copy("/repo/" + f, os.path.join(wt, f))
    meta_p = os.path.join(d, "meta.json")
    meta = json.load(open(meta_p)) if os.path.exists(meta_p) else {}
    try:
        conf_line = meta.get("confirmed", "")
        if "--no-confirm" not in a:
            r = sh("true" if reuse else "./configure >/dev/null 2>&1 && make -j8 >/dev/null 2>&1", shell=True, cwd=wt)
            if r.returncode:
                print("configure/build of the scratch worktree failed")
                return 2
            r = sh([os.path.join(VERIF, "tools", "seed_confirm.sh"), wt, patch, demo])
            lines = r.stdout.strip().splitlines()
            conf_line = " | ".join(lines[-2:])
            print(sid, conf_line, flush=True)
            if not lines or lines[-1] != "CONFIRMED":
                meta.update({"id": sid, "property": prop, "confirmed": conf_line, "kept": False})
                json.dump(meta, open(meta_p, "w"), indent=1)
                return 1
        r = sh(["git", "apply", patch], cwd=wt)
        if r.returncode:
            print("patch does not apply:", r.stdout)
            return 2
        env = dict(os.environ, VERIF_REPO=wt, VERIF_SCRATCH=scratch)
        results = dict(meta.get("results_by_check", {}))
        for c in checks:
            t0 = time.time()
            # own session + hard limit: a change under evaluation may send the harness into a loop; never let that outlive the evaluation
            import signal
            pr = subprocess.Popen([os.path.join(VERIF, "vcheck"), c, "--tier", tier], env=env, stdout=subprocess.PIPE, stderr=subprocess.STDOUT, text=True, cwd=VERIF, start_new_session=True)
            try:
                out, _ = pr.communicate(timeout=2700)
            except subprocess.TimeoutExpired:
                os.killpg(pr.pid, signal.SIGKILL)
                out, _ = pr.communicate()
                out = (out or "") + "\nHARNESS ERROR: evaluation exceeded 45 min and was killed\n"
                pr.returncode = 2
            finally:
                try:
                    os.killpg(pr.pid, signal.SIGKILL)       # stragglers (executors of a killed engine)
                except ProcessLookupError:
                    pass
            class _R: pass
            r = _R(); r.returncode = pr.returncode; r.stdout = out
            site = next((l.strip()[:200] for l in out.splitlines() if "site:" in l), "")
            key = next((l.strip()[:200] for l in out.splitlines() if l.strip().startswith("key=")), "")
            verdict = "DETECTED" if r.returncode == 1 else "missed" if r.returncode == 0 else "HARNESS-ERROR"
            results[c] = {"verdict": verdict, "exit": r.returncode, "tier": tier, "key": key, "site": site, "wall_s": round(time.time() - t0, 1),
                          "tail": "" if r.returncode in (0, 1) else out[-600:]}
            print("   %s %s %s exit=%d %.0fs %s %s" % (sid, c, verdict, r.returncode, time.time() - t0, key[:120], site[:120]), flush=True)
        meta.update({"id": sid, "property": prop,
                     "origin": "written by an independent sub-agent given only the property text and a scratch worktree",
                     "needs": meta.get("needs") or "see notes.md",
                     "confirmed": conf_line, "kept": True,
                     "ran": ["tools/seed_confirm.sh <scratch worktree> patch.diff run_demo.sh",
                             "git apply patch.diff in a scratch worktree of /repo HEAD; VERIF_REPO=<worktree> VERIF_SCRATCH=<scratch> ./vcheck <check> --tier %s" % tier],
                     "results_by_check": results,
                     "detected_by": sorted(c for c, v in results.items() if v["verdict"] == "DETECTED"),
                     "missed_by": sorted(c for c, v in results.items() if v["verdict"] == "missed")})
        json.dump(meta, open(meta_p, "w"), indent=1)
    finally:
        if reuse:
            sh(["git", "checkout", "--", "."], cwd=wt)
        else:
            sh(["git", "-C", "/repo", "worktree", "remove", "--force", wt])
            shutil.rmtree(wt, ignore_errors=True)
        shutil.rmtree(scratch, ignore_errors=True)
    return 0


if __name__ == "__main__":
    sys.exit(main())
